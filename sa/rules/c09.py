"""C09 - typed request-header accessors (DESIGN.md section 3, C09)."""

from __future__ import annotations

import ast
import re
from typing import Dict, List, Optional, Set

from .. import flow
from ..cfg import cfg_of
from ..flow import ERROR
from ..model import UNKNOWN, AnchorError, Func, UnknownIdiom, local_names, short, walk_no_nested
from .c09_helpers import (ASGI_REQ, C09_ACCESSORS, WSGI_REQ, SiteEscape, assignments, effective_members, is_4xx,
                          split_key, table_of)
from .common import enclosing_map, implied, is_self_attr, walk_self

MUTATORS = ('append', 'extend', 'insert', 'clear', 'update', 'pop', 'remove', 'setdefault', 'popitem', 'sort', 'reverse')


# ---------------------------------------------------------------------------
# R1 only 400-class errors escape
# ---------------------------------------------------------------------------

_CUT_METHODS = {'partition': 2, 'rpartition': 2}      # method -> index of the part after the separator
_FIND_METHODS = ('find', 'rfind', 'index', 'rindex')


def _port_conversion_key(p, f: Func, cons: str, where: str = '') -> str:
    """A conversion site in parse_host is identified by WHAT it converts, not by how the argument is spelled: an
    `int(<arg>)` whose argument is, by def-use, the text of the authority after a constant separator S (third part of
    `host.partition(S)` / `rpartition(S)`, or `host[pos + len(S):]` with `pos = host.find/rfind(S)`) is keyed
    `int(<port text after 'S'>)` -- the same defect keeps the same key when the slicing is refactored.  Any other
    shape keeps its source text."""
    from .c09_helpers import ReachingDefs, node_of, norm
    params = f.params()
    if not params:
        return cons
    host = params[0]
    sites = [n for n in walk_no_nested(f.node) if isinstance(n, ast.Call) and isinstance(n.func, ast.Name) and n.func.id == 'int'
             and len(n.args) == 1 and not n.keywords and norm(n) == cons]
    if len(sites) > 1 and where:
        here = [s for s in sites if f.loc(s) == where]       # two sites spelled alike: the one the escape chain ends at
        sites = here or sites
    if not sites:
        return cons
    cfg = cfg_of(f, p)
    rd = ReachingDefs(cfg)

    def of_host(e) -> bool:
        while isinstance(e, ast.Subscript):
            e = e.value
        return isinstance(e, ast.Name) and e.id == host

    def sep_const(c) -> Optional[str]:
        if len(c.args) >= 1 and isinstance(c.args[0], ast.Constant) and isinstance(c.args[0].value, str) and c.args[0].value:
            return c.args[0].value
        return None

    def after(e, nid: int, depth: int = 0) -> Optional[str]:
        """the constant separator the text `e` follows, or None"""
        if depth > 3:
            return None
        if isinstance(e, ast.Name):
            seps = set()
            for d in rd.at(nid, e.id):
                if d.how == 'unpack' and isinstance(d.src, ast.Call) and isinstance(d.src.func, ast.Attribute) \
                        and d.src.func.attr in _CUT_METHODS and d.index == _CUT_METHODS[d.src.func.attr] and of_host(d.src.func.value):
                    seps.add(sep_const(d.src))
                elif d.how == 'assign' and d.value is not None:
                    seps.add(after(d.value, node_of(cfg, d.stmt), depth + 1))
                else:
                    seps.add(None)
            return seps.pop() if len(seps) == 1 else None
        if isinstance(e, ast.Subscript) and of_host(e.value) and isinstance(e.slice, ast.Slice) and e.slice.upper is None and e.slice.step is None:
            lo = e.slice.lower
            if isinstance(lo, ast.BinOp) and isinstance(lo.op, ast.Add) and isinstance(lo.left, ast.Name) \
                    and isinstance(lo.right, ast.Constant) and isinstance(lo.right.value, int):
                seps = set()
                for d in rd.at(nid, lo.left.id):
                    v = d.value if d.how == 'assign' else None
                    if isinstance(v, ast.Call) and isinstance(v.func, ast.Attribute) and v.func.attr in _FIND_METHODS and of_host(v.func.value):
                        s = sep_const(v)
                        seps.add(s if s is not None and len(s) == lo.right.value else None)
                    else:
                        seps.add(None)
                return seps.pop() if len(seps) == 1 else None
        if isinstance(e, ast.Subscript) and isinstance(e.value, ast.Call) and isinstance(e.value.func, ast.Attribute) \
                and e.value.func.attr in _CUT_METHODS and of_host(e.value.func.value) and isinstance(e.slice, ast.Constant) \
                and e.slice.value in (_CUT_METHODS[e.value.func.attr], -1):
            return sep_const(e.value)
        return None

    keys = set()
    for s in sites:
        sep = after(s.args[0], node_of(cfg, s))
        keys.add("int(<port text after %r>)" % sep if sep is not None else cons)
    return keys.pop() if len(keys) == 1 else cons


def r1_only_4xx(run):
    p = run.project
    E = SiteEscape(p)
    offenders: Dict[str, dict] = {}
    examined = 0
    for cq in (WSGI_REQ, ASGI_REQ):
        c = p.cls(cq)
        mem = effective_members(p, cq)
        for name in C09_ACCESSORS:
            m = mem.get(name)
            if m is None or m.func is None:
                raise AnchorError('accessor %s.%s not found' % (cq, name))
            run.use(m.func)
            examined += 1
            summ = E.summary(m.func, c)
            bad = []
            for k, chain in summ.items():
                cls, org = split_key(k)
                if cls.startswith('?'):
                    raise UnknownIdiom('%s.%s raises an expression of unknown class: %s' % (cq, name, cls))
                if not is_4xx(p, cls):
                    bad.append((cls, org, chain))
            if not bad:
                run.ok('only 4xx HTTPError subclasses can escape %s.%s (escape set: %s)' % (
                    cq, name, ', '.join(sorted({split_key(k)[0].rsplit('.', 1)[-1] for k in summ})) or 'empty'),
                    m.func.loc(), '%s.%s' % (cq, name))
            for cls, org, chain in bad:
                o = offenders.setdefault(org, {'cls': set(), 'chain': chain, 'acc': []})
                o['cls'].add(cls)
                o['acc'].append('%s.%s' % (cq, name))
                if len(chain) < len(o['chain']):
                    o['chain'] = chain
    # fail closed on the *number of accessors examined* (violations are grouped per
    # offending construct, so the obligation count alone would not show a shrunken list)
    if examined != 2 * len(C09_ACCESSORS):
        raise AnchorError('examined %d accessor instances, expected %d' % (examined, 2 * len(C09_ACCESSORS)))
    for org in sorted(offenders):
        o = offenders[org]
        origin = o['chain'][-1]
        f = p.funcs.get(origin.fq, origin.fq)
        cons = origin.cons
        if origin.fq == 'falcon.util.uri.parse_host' and isinstance(f, Func):
            cons = _port_conversion_key(p, f, cons, origin[0])
        run.fail('%s raised here escapes request-header accessors as a non-4xx exception' % '/'.join(sorted(c.rsplit('.', 1)[-1] for c in o['cls'])),
                 f, cons, where=origin[0],
                 witness=['reached from: ' + ', '.join(o['acc'])] + ['%s  %s' % (w[0], w[1]) for w in o['chain']],
                 runtime_witness='a request whose header value makes this conversion fail (e.g. Host: example.com:abc); '
                                 'reading any of the listed accessors raises %s instead of a 4xx HTTPError' % '/'.join(sorted(o['cls'])))
    run.extra['c09_r1_escape'] = {'conversion_sites': E.sites_seen, 'calls_resolved': E.calls_resolved,
                                  'calls_external': E.calls_external, 'exemptions_used': E.exempt_used}


# ---------------------------------------------------------------------------
# R2 memo discipline
# ---------------------------------------------------------------------------

PREFIX = '_cached_'


def _cache_attr_names(p) -> Set[str]:
    names = set()
    for cq in (WSGI_REQ, ASGI_REQ):
        c = p.cls(cq)
        for n in c.attrs:
            if n.startswith(PREFIX):
                names.add(n)
        for f in c.methods.values():
            for n in ast.walk(f.node):
                if isinstance(n, ast.Attribute) and n.attr.startswith(PREFIX):
                    names.add(n.attr)
    if not names:
        raise AnchorError('no _cached_* attribute found in the request classes')
    return names


def _attr_writes(func: Func, names: Set[str]):
    """(attr, statement) for every write to / in-place mutation of X.<attr>."""
    out = []
    for n in walk_no_nested(func.node):
        if isinstance(n, (ast.Assign, ast.AnnAssign, ast.AugAssign, ast.Delete)):
            tg = n.targets if isinstance(n, (ast.Assign, ast.Delete)) else [n.target]
            for t in tg:
                for x in ([t] if not isinstance(t, (ast.Tuple, ast.List)) else list(t.elts)):
                    base = x
                    while isinstance(base, ast.Subscript):
                        base = base.value
                    if isinstance(base, ast.Attribute) and base.attr in names:
                        out.append((base.attr, n))
        elif isinstance(n, ast.Call) and isinstance(n.func, ast.Attribute) and n.func.attr in MUTATORS:
            r = n.func.value
            if isinstance(r, ast.Attribute) and r.attr in names:
                out.append((r.attr, n))
    return out


def _sentinel(p, cq: str, attr: str):
    """Initial value expression of self.<attr> on an instance of cq."""
    init = p.lookup_method(cq, '__init__')
    if init is not None:
        for n in walk_no_nested(init.node):
            if isinstance(n, (ast.Assign, ast.AnnAssign)):
                tg = n.targets if isinstance(n, ast.Assign) else [n.target]
                if any(is_self_attr(t, attr) for t in tg) and n.value is not None:
                    return n.value
    _c, v = p.lookup_class_attr(cq, attr)
    return v


def _memo_typestate(run, p, f: Func, attr: str, sentinel):
    cfg = cfg_of(f, p)
    run.use_cfg(cfg)
    stxt = short(sentinel)
    none_sentinel = isinstance(sentinel, ast.Constant) and sentinel.value is None

    def sent(expr, truth, alias='') -> Optional[bool]:
        """does this branch outcome tell whether the cache holds its sentinel?
        The cache is denoted by self.<attr> or by the local currently aliasing it."""
        def is_cache(e):
            return is_self_attr(e, attr) or (alias and isinstance(e, ast.Name) and e.id == alias)

        if isinstance(expr, ast.Compare) and len(expr.ops) == 1 and is_cache(expr.left):
            op = expr.ops[0]
            if short(expr.comparators[0]) == stxt:
                if isinstance(op, (ast.Is, ast.Eq)):
                    return truth
                if isinstance(op, (ast.IsNot, ast.NotEq)):
                    return not truth
            return None
        if is_cache(expr) and none_sentinel:
            return False if truth else None
        if isinstance(expr, ast.UnaryOp) and isinstance(expr.op, ast.Not):
            return sent(expr.operand, not truth, alias)
        if isinstance(expr, ast.BoolOp):
            if isinstance(expr.op, ast.And) and truth:
                for v in expr.values:
                    r = sent(v, True, alias)
                    if r is not None:
                        return r
            if isinstance(expr.op, ast.Or) and not truth:
                for v in expr.values:
                    r = sent(v, False, alias)
                    if r is not None:
                        return r
        return None

    seen_test = [False]

    # state = (phase, alias): phase in unk/S/hit/stored; alias = a local known to
    # be the very object stored in the cache ('' if none)
    def labeler(n):
        if n.kind != 'stmt':
            return []
        a = n.ast
        labs = []
        if any(at == attr for at, _s in _attr_writes_stmt(a, attr)):
            if isinstance(a, (ast.Assign, ast.AnnAssign)) and _direct_store(a, attr):
                alias = ''
                if isinstance(a.value, ast.Name):
                    alias = a.value.id
                elif isinstance(a, ast.Assign):
                    names = [t.id for t in a.targets if isinstance(t, ast.Name)]
                    alias = names[0] if names else ''
                labs.append('STORE:' + alias)
            else:
                labs.append('MUT')
        elif isinstance(a, (ast.Assign, ast.AnnAssign, ast.AugAssign)):
            tgs = a.targets if isinstance(a, ast.Assign) else [a.target]
            if (not isinstance(a, ast.AugAssign) and a.value is not None and is_self_attr(a.value, attr)
                    and len(tgs) == 1 and isinstance(tgs[0], ast.Name)):
                labs.append('LOAD:' + tgs[0].id)  # the local now denotes the cached object
            else:
                for t in tgs:
                    for x in ast.walk(t):
                        if isinstance(x, ast.Name) and isinstance(x.ctx, ast.Store):
                            labs.append('KILL:' + x.id)
        if isinstance(a, ast.Return):
            v = a.value
            if v is None or isinstance(v, ast.Constant):
                labs.append('RET_CONST')
            elif is_self_attr(v, attr):
                labs.append('RET_CACHE')
            elif isinstance(v, ast.Name):
                labs.append('RET_NAME:' + v.id)
            else:
                labs.append('RET_OTHER')
        return labs

    def delta(st, lab):
        ph, alias = st
        if lab.startswith('STORE:'):
            return ('stored', lab[6:]) if ph in ('S', 'stored') else ERROR
        if lab.startswith('KILL:'):
            return (ph, '') if alias == lab[5:] else st
        if lab.startswith('LOAD:'):
            return (ph, lab[5:])
        if lab == 'MUT':
            return st if ph == 'stored' else ERROR
        if lab == 'RET_CACHE':
            return ERROR if ph == 'S' else st
        if lab.startswith('RET_NAME:'):
            return st if (ph != 'S' and alias and alias == lab[9:]) else ERROR
        if lab == 'RET_OTHER':
            return ERROR
        return st

    def edge_delta(st, a, b, l):
        n = cfg.node(a)
        ph, alias = st
        if n.kind == 'test' and l in ('T', 'F'):
            r = sent(n.ast, l == 'T', alias)
            if r is True:
                seen_test[0] = True
                if ph == 'hit':
                    return None
                return ('S', alias) if ph == 'unk' else st
            if r is False:
                seen_test[0] = True
                if ph == 'S':
                    return None
                return ('hit', alias) if ph == 'unk' else st
        return st

    cex, nst, ntr = flow.typestate(cfg, labeler, delta, ('unk', ''), edge_delta=edge_delta)
    what = ('%s: %s is stored only under its sentinel test, every computed value is stored before it is returned, '
            'and only the memoised object (or a constant) is returned' % (f.qual, attr))
    if cex is None:
        if not seen_test[0] and any(_attr_writes_stmt(s, attr) for s in walk_no_nested(f.node) if isinstance(s, ast.stmt)):
            raise UnknownIdiom('%s: no recognisable sentinel test (%s is %s) guards the cache' % (f.qual, attr, stxt))
        run.ok(what, f.loc(), 'self.%s' % attr)
    else:
        path, st, reason = cex
        bad = cfg.node(path[-1])
        run.fail('memo discipline of %s violated (%s): repeated access may return a different object' % (attr, reason), f,
                 bad.ast if bad.ast is not None else bad.text(), where='%s:%s' % (f.file, bad.lineno),
                 witness=flow.describe_path(cfg, path),
                 runtime_witness='two consecutive reads of req.%s returning different objects' % f.name)


def _attr_writes_stmt(stmt, attr):
    """writes to self.<attr> made by this one statement (not nested statements)."""
    out = []
    if isinstance(stmt, (ast.Assign, ast.AnnAssign, ast.AugAssign, ast.Delete)):
        tg = stmt.targets if isinstance(stmt, (ast.Assign, ast.Delete)) else [stmt.target]
        for t in tg:
            for x in ([t] if not isinstance(t, (ast.Tuple, ast.List)) else list(t.elts)):
                base = x
                while isinstance(base, ast.Subscript):
                    base = base.value
                if isinstance(base, ast.Attribute) and base.attr == attr:
                    out.append((attr, stmt))
    elif isinstance(stmt, ast.Expr):
        for n in walk_self(stmt.value):
            if (isinstance(n, ast.Call) and isinstance(n.func, ast.Attribute) and n.func.attr in MUTATORS
                    and isinstance(n.func.value, ast.Attribute) and n.func.value.attr == attr):
                out.append((attr, stmt))
    return out


def _direct_store(stmt, attr) -> bool:
    tg = stmt.targets if isinstance(stmt, ast.Assign) else [stmt.target]
    return any(is_self_attr(t, attr) for t in tg) and getattr(stmt, 'value', None) is not None


def r2_memo(run):
    p = run.project
    names = _cache_attr_names(p)
    req_classes = {WSGI_REQ, ASGI_REQ}
    # (a) ownership: writers over the whole package
    n_w = 0
    for f in p.all_functions():
        for attr, stmt in _attr_writes(f, names):
            owner = attr[len(PREFIX):]
            top = f
            while top.parent is not None:
                top = top.parent
            ok = top.cls is not None and top.cls.qual in req_classes and top is f and f.name in ('__init__', owner)
            n_w += 1
            run.check(ok, 'self.%s is written only by its own accessor `%s` (and the constructor)' % (attr, owner), f, stmt,
                      runtime_witness='reading req.%s, then calling %s, then reading req.%s again yields a different value' % (owner, f.name, owner))
    # (b) per accessor: path discipline
    done = set()
    for cq in sorted(req_classes):
        mem = effective_members(p, cq)
        for attr in sorted(names):
            owner = attr[len(PREFIX):]
            m = mem.get(owner)
            if m is None or m.func is None:
                raise AnchorError('%s: no accessor `%s` for cache attribute %s' % (cq, owner, attr))
            f = m.func
            if (f.qual, attr) in done:
                continue
            done.add((f.qual, attr))
            mentions_attr = any(isinstance(n, ast.Attribute) and n.attr == attr for n in walk_no_nested(f.node))
            if not mentions_attr:
                # delegating accessor: must return another memoised member or a constant
                for r in [n for n in walk_no_nested(f.node) if isinstance(n, ast.Return)]:
                    v = r.value
                    ok = v is None or isinstance(v, ast.Constant) or (
                        isinstance(v, ast.Attribute) and isinstance(v.value, ast.Name) and v.value.id == 'self'
                        and (PREFIX + v.attr) in names)
                    if not ok:
                        raise UnknownIdiom('%s neither uses %s nor delegates to a memoised accessor' % (f.qual, attr))
                    run.ok('%s delegates to the memoised accessor %s' % (f.qual, short(v)), f.loc(r), r)
                continue
            sentinel = _sentinel(p, cq, attr)
            if sentinel is None:
                raise AnchorError('%s: initial value of %s not found' % (cq, attr))
            _memo_typestate(run, p, f, attr, sentinel)
    run.extra['c09_r2'] = {'cache_attributes': sorted(names), 'writer_sites': n_w}


# ---------------------------------------------------------------------------
# R3 case-insensitive lookup
# ---------------------------------------------------------------------------

# table kind -> (case-folding method the table's keys require, reason)
TABLE_CASE = {
    'environ': ('upper', 'PEP 3333: header variables are HTTP_<UPPER_CASE_NAME>'),
    'asgi-headers': ('lower', 'ASGI: header names are lower-cased byte strings'),
}


def _name_cache_params(f: Func) -> Set[str]:
    """parameters whose default is a dict display (a per-function memo table)."""
    a = f.node.args
    pos = a.posonlyargs + a.args
    out = set()
    for arg, d in zip(pos[len(pos) - len(a.defaults):], a.defaults):
        if isinstance(d, ast.Dict):
            out.add(arg.arg)
    for arg, d in zip(a.kwonlyargs, a.kw_defaults):
        if isinstance(d, ast.Dict):
            out.add(arg.arg)
    return out


def _r3_one(run, p, f: Func, kind: str):
    fold, why = TABLE_CASE[kind]
    params = f.params()
    if len(params) < 2:
        raise AnchorError('%s has no name parameter' % f.qual)
    name = params[1]
    caches = _name_cache_params(f)
    asg = assignments(f)
    cache_stores = []  # (cache, key expr, value expr, stmt)
    for n in walk_no_nested(f.node):
        if isinstance(n, ast.Assign):
            for t in n.targets:
                if isinstance(t, ast.Subscript) and isinstance(t.value, ast.Name) and t.value.id in caches:
                    cache_stores.append((t.value.id, t.slice, n.value, n))

    visiting: Set[int] = set()

    def folded(e, depth=0) -> bool:
        """every occurrence of the raw name inside e lies under a .<fold>() call
        (greatest fixpoint: a cache read is folded if everything stored is)"""
        if id(e) in visiting:
            return True
        if depth > 12:
            raise UnknownIdiom('%s: key expression too deep' % f.qual)
        visiting.add(id(e))
        try:
            return _folded(e, depth)
        finally:
            visiting.discard(id(e))

    def _folded(e, depth) -> bool:
        if isinstance(e, ast.Call) and isinstance(e.func, ast.Attribute) and e.func.attr == fold and not e.args:
            return True
        if isinstance(e, ast.Call) and isinstance(e.func, ast.Attribute) and e.func.attr in ('upper', 'lower', 'casefold', 'title', 'capitalize', 'swapcase') and e.func.attr != fold:
            return not _mentions_name(e, depth)
        if isinstance(e, ast.Name):
            if e.id == name:
                return False
            if e.id in asg and e.id not in params:
                vals = asg[e.id]
                if any(v is None for v in vals):
                    raise UnknownIdiom('%s: local %s feeding a header-table key has a non-expression binding' % (f.qual, e.id))
                return all(folded(v, depth + 1) for v in vals)
            return True
        if isinstance(e, ast.Subscript) and isinstance(e.value, ast.Name) and e.value.id in caches:
            stores = [s for s in cache_stores if s[0] == e.value.id]
            if not stores:
                raise UnknownIdiom('%s: name cache %s is read but never filled' % (f.qual, e.value.id))
            return all(short(k) == short(e.slice) and folded(v, depth + 1) for (_c, k, v, _s) in stores)
        if isinstance(e, ast.Call) and not isinstance(e.func, ast.Attribute) and name in free_vars(e):
            # the name passes through a helper function this rule cannot see into
            raise UnknownIdiom('%s: the requested name is transformed by %s before the lookup' % (f.qual, short(e.func)))
        return all(folded(ch, depth) for ch in ast.iter_child_nodes(e) if isinstance(ch, ast.expr))

    def _mentions_name(e, depth) -> bool:
        return not folded_free(e, depth)

    def folded_free(e, depth) -> bool:
        # True if e does not depend on the raw name at all
        return name not in free_vars(e, depth)

    def free_vars(e, depth=0, seen=None) -> Set[str]:
        out: Set[str] = set()
        seen = seen if seen is not None else set()
        if id(e) in seen:
            return out
        seen.add(id(e))
        if depth > 12:
            return {'?'}
        for n in walk_self(e):
            if isinstance(n, ast.Name) and isinstance(n.ctx, ast.Load):
                if n.id in caches:
                    continue  # a read of the memo table: covered by the purity obligation on its stores
                if n.id in asg and n.id not in params:
                    for v in asg[n.id]:
                        out |= free_vars(v, depth + 1, seen) if v is not None else {'?'}
                else:
                    out.add(n.id)
        return out

    lookups = []
    for n in walk_no_nested(f.node):
        if isinstance(n, ast.Subscript) and isinstance(n.ctx, ast.Load):
            t = table_of(f, n.value)
            if t is not None and t[0] == kind:
                lookups.append((n, n.slice))
        elif isinstance(n, ast.Call) and isinstance(n.func, ast.Attribute) and n.func.attr in ('get', 'pop', '__getitem__', '__contains__') and n.args:
            t = table_of(f, n.func.value)
            if t is not None and t[0] == kind:
                lookups.append((n, n.args[0]))
        elif isinstance(n, ast.Compare) and len(n.ops) == 1 and isinstance(n.ops[0], (ast.In, ast.NotIn)):
            t = table_of(f, n.comparators[0])
            if t is not None and t[0] == kind:
                lookups.append((n, n.left))
    if not lookups:
        raise AnchorError('%s: no lookup in the %s table found' % (f.qual, kind))
    for node, key in lookups:
        run.check(folded(key), '%s: the key of every header-table lookup derives from the requested name through .%s() (%s)' % (f.qual, fold, why),
                  f, node, runtime_witness='get_header() with a differently-cased name (e.g. "content-TYPE") misses a header that is present')
    for cache, k, v, stmt in cache_stores:
        fv = free_vars(v)
        run.check(isinstance(k, ast.Name) and k.id == name and fv <= {name},
                  '%s: the name cache maps a key to a pure function of that key' % f.qual, f, stmt,
                  witness=['value depends on: %s' % ', '.join(sorted(fv))],
                  runtime_witness='a cached header-name translation that depends on an earlier request')


def r3_case_insensitive(run):
    p = run.project
    for cq, kind in ((WSGI_REQ, 'environ'), (ASGI_REQ, 'asgi-headers')):
        m = effective_members(p, cq).get('get_header')
        if m is None or m.func is None or m.func.cls is None or m.func.cls.qual != cq:
            raise AnchorError('%s does not define get_header' % cq)
        run.use(m.func)
        _r3_one(run, p, m.func, kind)


# ---------------------------------------------------------------------------
# R4 writer / reader agreement
# ---------------------------------------------------------------------------

def _calls_named(f: Func, attr: str, p) -> List[ast.Call]:
    """calls of `.attr(...)`, or of a module alias that resolves to `*.attr`."""
    out = []
    for n in walk_no_nested(f.node):
        if not isinstance(n, ast.Call):
            continue
        if isinstance(n.func, ast.Attribute) and n.func.attr == attr:
            out.append(n)
        elif isinstance(n.func, ast.Name):
            t = p.resolve_callable(f, n.func)
            if isinstance(t, str) and t.endswith('.' + attr):
                out.append(n)
    return out


def _fold_str(p, f: Func, e, what):
    v = p.fold(f.module, e, None, f)
    if v is UNKNOWN and isinstance(e, ast.Name):
        vals = assignments(f).get(e.id)
        if vals and len(vals) == 1 and vals[0] is not None:
            v = p.fold(f.module, vals[0], None, None)
    if v is UNKNOWN:
        raise UnknownIdiom('%s: %s is not a foldable constant: %s' % (f.qual, what, short(e)))
    return v


def _is_tz_test(e, name, op):
    return (isinstance(e, ast.Compare) and len(e.ops) == 1 and isinstance(e.ops[0], op)
            and isinstance(e.left, ast.Attribute) and e.left.attr == 'tzinfo' and isinstance(e.left.value, ast.Name)
            and e.left.value.id == name and isinstance(e.comparators[0], ast.Constant) and e.comparators[0].value is None)


def _receiver_aware(p, fn: Func, call: ast.Call) -> bool:
    """Is the receiver of `<recv>.astimezone(zone)` known to be an aware
    datetime?  Frozen table: a name tested `<name>.tzinfo is not None` on a
    dominating edge; `.replace(tzinfo=<not None>)`; `.astimezone(...)`;
    `now(tz)` / `fromtimestamp(x, tz)` / `strptime` with %z in a constant
    format.  Anything else (a parameter, a strptime result without %z) may be
    naive."""
    recv = call.func.value
    if isinstance(recv, ast.Call) and isinstance(recv.func, ast.Attribute):
        a = recv.func.attr
        if a == 'replace':
            tz = [k.value for k in recv.keywords if k.arg == 'tzinfo']
            return bool(tz) and not (isinstance(tz[0], ast.Constant) and tz[0].value is None)
        if a == 'astimezone':
            return True
        if a in ('now', 'fromtimestamp'):
            need = 1 if a == 'now' else 2
            tz = [k.value for k in recv.keywords if k.arg == 'tz'] + list(recv.args[need - 1:need])
            return bool(tz) and not (isinstance(tz[0], ast.Constant) and tz[0].value is None)
    if isinstance(recv, ast.Call):
        q = p.resolve_callable(fn, recv.func)
        qn = q if isinstance(q, str) else (q.qual if q is not None and hasattr(q, 'qual') else '')
        if qn.endswith('strptime') or (isinstance(recv.func, ast.Name) and 'strptime' in recv.func.id):
            if len(recv.args) >= 2:
                v = p.fold(fn.module, recv.args[1], None, fn)
                return isinstance(v, str) and '%z' in v
            return False
        return False
    if isinstance(recv, ast.Name):
        cfg = cfg_of(fn, p)
        nid = None
        for n in cfg.live_nodes():
            if any(x is call for x in n.calls()):
                nid = n.id
        if nid is None:
            return False
        for t in cfg.live_nodes():
            if t.kind != 'test':
                continue
            for (y, l) in cfg.succ[t.id]:
                if l not in ('T', 'F'):
                    continue
                r1 = implied(t.ast, l == 'T', lambda e: _is_tz_test(e, recv.id, ast.Is))
                r2 = implied(t.ast, l == 'T', lambda e: _is_tz_test(e, recv.id, ast.IsNot))
                if (r1 is False or r2 is True) and flow.dominated_by_edge(cfg, nid, (t.id, y, l)):
                    return True
        return False
    return False


def localtime_sweep(run):
    """No date/time value written or read by the framework goes through the
    process-local time zone (shared with C15: cookie expiry, C16: 304 decision)."""
    p = run.project
    # the response API's contract is "naive datetimes are UTC": nothing in the
    # writer (or reader) may go through the process-local time zone.  Frozen
    # table of local-time primitives: datetime.timestamp() and astimezone()
    # without tz interpret a naive value as LOCAL time; time.mktime/localtime,
    # datetime.fromtimestamp(x) (no tz) and time.strftime do the same.
    sweep = [fn for fn in p.all_functions() if not fn.module.name.startswith(('falcon.testing', 'falcon.bench', 'falcon.cmd'))]
    run.extra['c09_r4_localtime_sweep_functions'] = len(sweep)
    for fn in sweep:
        for c in walk_self(fn.node):
            if not isinstance(c, ast.Call):
                continue
            name = None
            if isinstance(c.func, ast.Attribute) and c.func.attr == 'timestamp' and not c.args:
                name = '.timestamp()'
            elif isinstance(c.func, ast.Attribute) and c.func.attr == 'astimezone' and not c.args and not c.keywords:
                name = '.astimezone() without a zone'
            elif isinstance(c.func, ast.Attribute) and c.func.attr == 'astimezone':
                # astimezone(<zone>) is the right conversion for an AWARE value; applied to a naive one it first
                # attaches the process-local zone.  The receiver must be known aware at this point.
                if not _receiver_aware(p, fn, c):
                    name = '.astimezone(<zone>) on a value not known to be timezone-aware'
            elif isinstance(c.func, ast.Attribute) and c.func.attr == 'fromtimestamp' and len(c.args) < 2 and not any(k.arg == 'tz' for k in c.keywords):
                name = 'fromtimestamp() without tz'
            else:
                q = p.resolve_callable(fn, c.func)
                if isinstance(q, str) and q in ('time.mktime', 'time.localtime', 'time.strftime', 'time.ctime'):
                    name = q
            if name:
                run.fail('%s converts through the process-local time zone (%s): a naive (UTC) datetime is shifted by the local UTC offset, '
                         'so a date written by the response API does not read back to the same value' % (fn.name, name), fn, c,
                         runtime_witness='TZ=Europe/Berlin: resp.last_modified = datetime(2024,1,1,12,0) is emitted as 11:00:00 GMT; '
                                         'revalidating with the server\'s own Last-Modified gives 200 instead of 304')
    run.ok('local-time primitives: none in %d swept functions' % len(sweep), 'falcon/', 'local-time sweep')


def _r4_dates(run, p):
    w = p.func('falcon.util.misc.dt_to_http')
    r = p.func('falcon.util.misc.http_date_to_dt')
    run.use(w)
    run.use(r)
    localtime_sweep(run)
    wc = _calls_named(w, 'strftime', p)
    if not wc:
        # email.utils.formatdate(<ts>, usegmt=True) writes the same IMF-fixdate
        fd = [c for c in walk_self(w.node) if isinstance(c, ast.Call) and isinstance(p.resolve_callable(w, c.func), str)
              and p.resolve_callable(w, c.func).endswith('utils.formatdate')]
        if fd and run.rule_stats[run.current_rule]['violations']:
            return
    if len(wc) != 1 or not wc[0].args:
        raise AnchorError('dt_to_http: expected exactly one strftime(<format>) call')
    wfmt = _fold_str(p, w, wc[0].args[-1], 'strftime format')
    if not isinstance(wfmt, str):
        raise UnknownIdiom('dt_to_http: format is %r' % (wfmt,))
    # reader formats: strptime(<value>, <format>) calls; the format is either a
    # constant or the target of a loop over a constant tuple
    rcfg = cfg_of(r, p)
    run.use_cfg(rcfg)
    default_fmts: List[str] = []
    obs_fmts: List[str] = []
    params = r.params()
    if len(params) < 2:
        raise AnchorError('http_date_to_dt: obs_date parameter missing')
    flag = params[1]
    from .c09_helpers import fact_value, node_of
    calls = _calls_named(r, 'strptime', p)
    if not calls:
        raise AnchorError('http_date_to_dt: no strptime call')
    for c in calls:
        if len(c.args) < 2:
            raise UnknownIdiom('http_date_to_dt: strptime call shape %s' % short(c))
        fe = c.args[1]
        nid = node_of(rcfg, c)
        fv = fact_value(rcfg, nid, lambda e: isinstance(e, ast.Name) and e.id == flag)
        fmts = None
        if isinstance(fe, ast.Name):
            # loop variable over a constant tuple?
            for lp in [n for n in walk_no_nested(r.node) if isinstance(n, ast.For)]:
                if isinstance(lp.target, ast.Name) and lp.target.id == fe.id and any(x is c for x in ast.walk(lp)):
                    seq = _fold_str(p, r, lp.iter, 'format list')
                    if isinstance(seq, (tuple, list)) and all(isinstance(x, str) for x in seq):
                        fmts = list(seq)
        if fmts is None:
            one = _fold_str(p, r, fe, 'strptime format')
            if not isinstance(one, str):
                raise UnknownIdiom('http_date_to_dt: format %r' % (one,))
            fmts = [one]
        if fv is True:
            obs_fmts += fmts
        elif fv is False:
            default_fmts += fmts
        else:
            default_fmts += fmts
            obs_fmts += fmts
    if not default_fmts:
        raise AnchorError('http_date_to_dt: no format is tried when obs_date is false')
    run.check(default_fmts[0] == wfmt and len(set(default_fmts)) == 1,
              'the strftime format of dt_to_http equals the (only) format http_date_to_dt tries by default', w, wc[0],
              witness=['writer %r' % wfmt, 'reader (obs_date=False) %r' % (default_fmts,)],
              runtime_witness='resp.last_modified / http_now() output that req.get_header_as_datetime() rejects with 400')
    if obs_fmts:
        accepted = {wfmt, wfmt.replace('GMT', '%Z')}
        run.check(obs_fmts[0] in accepted,
                  'with obs_date=True the first format tried still accepts what dt_to_http writes', r, 'obs_date formats',
                  witness=['writer %r' % wfmt, 'reader (obs_date=True) %r' % (obs_fmts,)])


def _concat_parts(e) -> Optional[List[ast.AST]]:
    if isinstance(e, ast.BinOp) and isinstance(e.op, ast.Add):
        l, r = _concat_parts(e.left), _concat_parts(e.right)
        if l is None or r is None:
            return None
        return l + r
    return [e]


def _r4_etags(run, p):
    from .c09_helpers import fact_value, node_of
    d = p.func('falcon.util.structures.ETag.dumps')
    l = p.func('falcon.util.structures.ETag.loads')
    run.use(d)
    run.use(l)
    dcfg = cfg_of(d, p)
    shapes = []  # (weak?, prefix, suffix, return node)
    for r in [n for n in walk_no_nested(d.node) if isinstance(n, ast.Return)]:
        parts = _concat_parts(r.value)
        if parts is None or len(parts) != 3 or not (isinstance(parts[1], ast.Name) and parts[1].id == 'self'):
            raise UnknownIdiom('ETag.dumps: return shape %s' % short(r.value))
        pre, suf = p.fold(d.module, parts[0], d.cls, d), p.fold(d.module, parts[2], d.cls, d)
        if not (isinstance(pre, str) and isinstance(suf, str)):
            raise UnknownIdiom('ETag.dumps: non-constant delimiters in %s' % short(r.value))
        weak = fact_value(dcfg, node_of(dcfg, r), lambda e: is_self_attr(e, 'is_weak'))
        shapes.append((weak, pre, suf, r))
    if len(shapes) < 2:
        raise AnchorError('ETag.dumps: expected a weak and a strong rendering')
    weak_s = [s for s in shapes if s[0] is True]
    strong_s = [s for s in shapes if s[0] is not True]
    if not weak_s or not strong_s:
        raise UnknownIdiom('ETag.dumps: cannot tell the weak rendering from the strong one')
    # (a) the multi-tag pattern of request_helpers
    m = p.module('falcon.request_helpers')
    pat_e = m.consts.get('_ENTITY_TAG_PATTERN')
    if not (isinstance(pat_e, ast.Call) and pat_e.args):
        raise AnchorError('falcon.request_helpers._ENTITY_TAG_PATTERN not found')
    pat = p.fold(m, pat_e.args[0])
    if not isinstance(pat, str):
        raise UnknownIdiom('_ENTITY_TAG_PATTERN is not a constant string')
    try:
        rx = re.compile(pat)
    except re.error as ex:
        raise UnknownIdiom('_ENTITY_TAG_PATTERN does not compile: %s' % ex)
    pe = p.func('falcon.request_helpers._parse_etags')
    # positions of (weak, value) in the findall tuple: from the loop target over findall
    order = None
    for lp in [n for n in walk_no_nested(pe.node) if isinstance(n, ast.For)]:
        if isinstance(lp.iter, ast.Call) and isinstance(lp.iter.func, ast.Attribute) and lp.iter.func.attr == 'findall' \
                and isinstance(lp.target, ast.Tuple) and len(lp.target.elts) == 2 and all(isinstance(x, ast.Name) for x in lp.target.elts):
            a, b = [x.id for x in lp.target.elts]
            # which one is passed to ETag(...)
            for c in [n for n in walk_no_nested(lp) if isinstance(n, ast.Call) and n.args and isinstance(n.args[0], ast.Name)]:
                t = p.resolve_callable(pe, c.func)
                if getattr(t, 'qual', None) == 'falcon.util.structures.ETag':
                    order = (1, 2) if c.args[0].id == b else (2, 1)
    if order is None or rx.groups != 2:
        raise UnknownIdiom('_parse_etags: cannot identify the (weak, value) groups of _ENTITY_TAG_PATTERN')
    gw, gv = order
    opaque = 'x.Y-z_0'
    for weak, pre, suf, r in shapes:
        txt = pre + opaque + suf
        mm = rx.fullmatch(txt)
        ok = mm is not None and mm.group(gv) == opaque and bool(mm.group(gw)) == bool(weak)
        # also inside a list
        lst = rx.findall(txt + ', ' + txt)
        ok = ok and len(lst) == 2 and all(x[gv - 1] == opaque and bool(x[gw - 1]) == bool(weak) for x in lst)
        run.check(ok, 'what ETag.dumps writes (%s) is read back by _ENTITY_TAG_PATTERN with the same value and weakness' % ('weak' if weak else 'strong'),
                  d, r, witness=['pattern %r' % pat, 'sample %r' % txt],
                  runtime_witness='resp.etag = X; the value sent back in If-None-Match: a, b parses to a different tag')
    # (b) ETag.loads: prefix table and quote stripping, read off the literals
    prefixes = None
    strip_n = None
    quote = None
    for n in walk_no_nested(l.node):
        if isinstance(n, ast.Call) and isinstance(n.func, ast.Attribute) and n.func.attr == 'startswith' and n.args:
            v = p.fold(l.module, n.args[0], l.cls, l)
            if isinstance(v, str):
                v = (v,)
            if isinstance(v, tuple) and all(isinstance(x, str) for x in v):
                prefixes = tuple(prefixes or ()) + v
        if isinstance(n, ast.Compare) and all(isinstance(o, ast.Eq) for o in n.ops):
            cs = [c for c in [n.left] + n.comparators if isinstance(c, ast.Constant) and isinstance(c.value, str)]
            if len(cs) == 1 and any(isinstance(c, ast.Subscript) for c in [n.left] + n.comparators):
                quote = cs[0].value
    lcfg = cfg_of(l, p)
    for n in walk_no_nested(l.node):
        if isinstance(n, ast.Assign) and isinstance(n.value, ast.Subscript) and isinstance(n.value.slice, ast.Slice):
            sl = n.value.slice
            if sl.upper is None and sl.lower is not None and sl.step is None:
                k = p.fold(l.module, sl.lower, l.cls, l)
                if isinstance(k, int):
                    strip_n = k
    if prefixes is None or strip_n is None or quote is None:
        raise UnknownIdiom('ETag.loads: weak-prefix test / slice / quote comparison not recognised')
    for weak, pre, suf, r in shapes:
        if weak:
            hit = [x for x in prefixes if pre.startswith(x)]
            ok = bool(hit) and all(len(x) == strip_n for x in prefixes) and pre[strip_n:] == quote and suf == quote
        else:
            ok = not any(pre.startswith(x) for x in prefixes) and pre == quote and suf == quote
        run.check(ok, 'what ETag.dumps writes (%s) is undone by ETag.loads: weak prefix table %r, quote %r' % ('weak' if weak else 'strong', prefixes, quote),
                  d, r, witness=['dumps prefix %r suffix %r' % (pre, suf), 'loads strips %d chars after a prefix in %r' % (strip_n, prefixes)],
                  runtime_witness='ETag.loads(ETag.dumps(t)) != t')


def _r4_etag_header_writer(run, p):
    """resp.etag accepts both a bare opaque value and a ready entity-tag.  The
    formatter adds the surrounding quotes; what ETag.dumps writes -- strong
    `"v"` AND weak `W/"v"` -- ends with the closing quote and must go through
    unchanged.  Decided: the branch that wraps the value in quotes is taken
    only where the value is known NOT to end with the quote character."""
    f = p.func('falcon.response_helpers._format_etag_header')
    run.use(f)
    prm = f.params()[0]

    def is_quote(e):
        return isinstance(e, ast.Constant) and e.value == '"'

    def last_char(e):
        return (isinstance(e, ast.Subscript) and isinstance(e.value, ast.Name) and e.value.id == prm
                and isinstance(e.slice, ast.UnaryOp) and isinstance(e.slice.op, ast.USub)
                and isinstance(e.slice.operand, ast.Constant) and e.slice.operand.value == 1)

    def ends_quote(e):
        if isinstance(e, ast.Compare) and len(e.ops) == 1 and isinstance(e.ops[0], ast.Eq) and last_char(e.left) and is_quote(e.comparators[0]):
            return True
        return (isinstance(e, ast.Call) and isinstance(e.func, ast.Attribute) and e.func.attr == 'endswith' and isinstance(e.func.value, ast.Name)
                and e.func.value.id == prm and len(e.args) == 1 and is_quote(e.args[0]))

    def not_ends_quote(e):
        return isinstance(e, ast.Compare) and len(e.ops) == 1 and isinstance(e.ops[0], ast.NotEq) and last_char(e.left) and is_quote(e.comparators[0])

    wraps = []
    for n in walk_no_nested(f.node):
        if isinstance(n, ast.If):
            for st in n.body:
                if isinstance(st, (ast.Assign, ast.Return)) and st.value is not None:
                    parts = _concat_parts(st.value)
                    if parts and len(parts) == 3 and is_quote(parts[0]) and is_quote(parts[2]):
                        wraps.append((n, st))
    if not wraps:
        # conditional expression form?
        for n in walk_no_nested(f.node):
            if isinstance(n, ast.IfExp):
                parts = _concat_parts(n.body)
                if parts and len(parts) == 3 and is_quote(parts[0]) and is_quote(parts[2]):
                    wraps.append((n, n))
    if not wraps:
        raise UnknownIdiom('_format_etag_header: the quote-wrapping branch was not recognised')
    for n, st in wraps:
        ok = implied(n.test, True, ends_quote) is False or implied(n.test, True, not_ends_quote) is True
        run.check(ok, '_format_etag_header wraps a value in quotes only where it does not already end with the closing quote '
                      '(a ready strong or weak entity-tag goes through unchanged)', f, n.test,
                  runtime_witness="resp.etag = 'W/\"abc\"' is sent as \"W/\"abc\"\" : a strong tag with a different value; If-None-Match revalidation never matches")


def r4_writer_reader(run):
    _r4_dates(run, run.project)
    _r4_etags(run, run.project)
    _r4_etag_header_writer(run, run.project)


# ---------------------------------------------------------------------------
# R6 range decision table
# ---------------------------------------------------------------------------

def r6_range(run):
    from .c09_helpers import UNK, branch_facts, ceval, node_of
    p = run.project
    f = p.func(WSGI_REQ + '.range')
    cfg = cfg_of(f, p)
    run.use_cfg(cfg)
    asg = assignments(f)
    # roles from `a, sep, b = X.partition('-')`
    first = last = sepname = None
    for n in walk_no_nested(f.node):
        if (isinstance(n, ast.Assign) and isinstance(n.value, ast.Call) and isinstance(n.value.func, ast.Attribute)
                and n.value.func.attr == 'partition' and n.value.args and isinstance(n.value.args[0], ast.Constant)
                and n.value.args[0].value == '-' and isinstance(n.targets[0], ast.Tuple) and len(n.targets[0].elts) == 3
                and all(isinstance(x, ast.Name) for x in n.targets[0].elts)):
            first, sepname, last = [x.id for x in n.targets[0].elts]
    if first is None:
        raise AnchorError('Request.range: `first, sep, last = <range>.partition("-")` not found')

    def role(e, depth=0) -> Optional[str]:
        """'F' = int(first), 'L' = int(last), '-L' = -int(last), '-1'"""
        if depth > 4:
            return None
        if isinstance(e, ast.Name) and e.id not in (first, last, sepname):
            # a local bound once (`n = int(last)` ... `(-n, -1)`): read through it
            vals = asg.get(e.id) or []
            if len(vals) == 1 and vals[0] is not None:
                return role(vals[0], depth + 1)
            return None
        if isinstance(e, ast.Call) and isinstance(e.func, ast.Name) and e.func.id == 'int' and len(e.args) == 1 and isinstance(e.args[0], ast.Name):
            return {first: 'F', last: 'L'}.get(e.args[0].id)
        if isinstance(e, ast.UnaryOp) and isinstance(e.op, ast.USub):
            if isinstance(e.operand, ast.Constant):
                return '-%s' % e.operand.value
            r = role(e.operand, depth + 1)
            return ('-' + r) if r in ('F', 'L') else None
        if isinstance(e, ast.Constant):
            return repr(e.value)
        return None

    def facts(nid) -> Dict[str, bool]:
        out = {}
        for test, truth in branch_facts(cfg, nid):
            parts = [(test, truth)]
            if isinstance(test, ast.BoolOp) and isinstance(test.op, ast.And) and truth:
                parts = [(v, True) for v in test.values]
            for t, tr in parts:
                if isinstance(t, ast.UnaryOp) and isinstance(t.op, ast.Not):
                    t, tr = t.operand, not tr
                if isinstance(t, ast.Name) and t.id in (first, last, sepname):
                    out[{first: 'first', last: 'last', sepname: 'sep'}[t.id]] = tr
        return out

    def raises_after(nid_true_edges) -> bool:
        """all paths over these edges reach xexit/handler->raise without a normal return"""
        starts = [b for (_a, b, _l) in nid_true_edges]
        return cfg.exit not in flow.reachable(cfg, starts) if starts else False

    # tuple assignments of (first_num, last_num); two adjacent single assignments `a = <x>` / `b = <y>` to the names of the
    # returned pair count as the tuple assignment `a, b = (<x>, <y>)`
    pair_names = None
    for r in walk_no_nested(f.node):
        if isinstance(r, ast.Return) and isinstance(r.value, ast.Tuple) and len(r.value.elts) == 2 and all(isinstance(x, ast.Name) for x in r.value.elts):
            pair_names = (r.value.elts[0].id, r.value.elts[1].id)
    pair_assigns = []      # (statement that stands for the assignment, (value of the first offset, value of the last offset))
    for n in walk_self(f.node):
        if (isinstance(n, ast.Assign) and isinstance(n.targets[0], ast.Tuple) and isinstance(n.value, ast.Tuple)
                and len(n.value.elts) == 2 and len(n.targets[0].elts) == 2):
            pair_assigns.append((n, tuple(n.value.elts)))
        for fld in ('body', 'orelse', 'finalbody'):
            body = getattr(n, fld, None)
            if not (isinstance(body, list) and pair_names and pair_names[0] != pair_names[1]):
                continue
            for s1, s2 in zip(body, body[1:]):
                if all(isinstance(x, ast.Assign) and len(x.targets) == 1 and isinstance(x.targets[0], ast.Name) for x in (s1, s2)) \
                        and {s1.targets[0].id, s2.targets[0].id} == set(pair_names) \
                        and not any(isinstance(x, ast.Name) and x.id == s1.targets[0].id for x in ast.walk(s2.value)):
                    a, b = (s1, s2) if s1.targets[0].id == pair_names[0] else (s2, s1)
                    pair_assigns.append((s2, (a.value, b.value)))
    n_found = 0
    cells_seen = set()
    for n, pair_values in pair_assigns:
        roles = tuple(role(e) for e in pair_values)
        if None in roles:
            continue
        nid = node_of(cfg, n)
        fc = facts(nid)
        n_found += 1
        # decision table: the guards that dominate the assignment are evaluated over the four cells
        # (first-pos given?, last-pos / suffix given?) with the "-" present; the order and the polarity the chain of
        # tests is written in do not matter, only the cell the assignment is reached in
        cells = []
        for fe, le in ((True, True), (True, False), (False, True), (False, False)):
            env = {first: fe, last: le, sepname: True}
            reached = True
            for test, truth in branch_facts(cfg, nid):
                r = ceval(test, env)
                if r is UNK:
                    if {x.id for x in walk_self(test) if isinstance(x, ast.Name)} & {first, last}:
                        raise UnknownIdiom('Request.range: offsets assigned under unrecognised guards %s (test %s)' % (fc, short(test)))
                    continue
                if bool(r) != truth:
                    reached = False
                    break
            if reached:
                cells.append((fe, le))
        if len(cells) != 1 or cells[0] == (False, False):
            raise UnknownIdiom('Request.range: offsets assigned under unrecognised guards %s (reached with (first given, last given) in %s)' % (fc, cells))
        cell = cells[0]
        cells_seen.add(cell)
        want = {(True, True): ('F', 'L'), (True, False): ('F', '-1'), (False, True): ('-L', '-1')}[cell]
        run.check(roles == want, 'Range: with %s present the offsets are %s (RFC 9110 14.1.2: first-last / first- / -suffix)' % (
            ' and '.join(k for k, on in zip(('first', 'last'), cell) if on), want), f, n)
    if n_found < 3 or len(cells_seen) < 3:
        raise AnchorError('Request.range: expected three offset assignments (first-last, first-, -suffix), found %d for the cells %s' % (
            n_found, sorted(cells_seen)))
    # comparisons between the converted offsets
    names_of_roles: Dict[str, str] = {}
    for n in walk_no_nested(f.node):
        if isinstance(n, ast.Assign) and isinstance(n.targets[0], ast.Tuple) and isinstance(n.value, ast.Tuple) and len(n.value.elts) == len(n.targets[0].elts):
            for t, v in zip(n.targets[0].elts, n.value.elts):
                r = role(v)
                if isinstance(t, ast.Name) and r in ('F', 'L'):
                    names_of_roles.setdefault(t.id, r)
        elif isinstance(n, ast.Assign) and len(n.targets) == 1 and isinstance(n.targets[0], ast.Name) and pair_names and n.targets[0].id in pair_names:
            r = role(n.value)
            if r in ('F', 'L'):
                names_of_roles.setdefault(n.targets[0].id, r)
    cmp_found = 0
    for t in cfg.live_nodes():
        if t.kind != 'test':
            continue
        cmp, negated = t.ast, False
        while isinstance(cmp, ast.UnaryOp) and isinstance(cmp.op, ast.Not):      # `not last >= first`
            cmp, negated = cmp.operand, not negated
        if not isinstance(cmp, ast.Compare) or len(cmp.ops) != 1:
            continue
        l, r = cmp.left, cmp.comparators[0]
        if not (isinstance(l, ast.Name) and isinstance(r, ast.Name)):
            continue
        rl, rr = names_of_roles.get(l.id), names_of_roles.get(r.id)
        if {rl, rr} != {'F', 'L'}:
            continue
        # is this comparison evaluated where both are the first-last pair?
        cmp_found += 1
        op = cmp.ops[0]
        # normalise to  L <op> F
        if rl == 'F':
            op = {ast.Lt: ast.Gt, ast.Gt: ast.Lt, ast.LtE: ast.GtE, ast.GtE: ast.LtE}.get(type(op), type(op))()
        if negated:
            op = {ast.Lt: ast.GtE, ast.GtE: ast.Lt, ast.Gt: ast.LtE, ast.LtE: ast.Gt, ast.Eq: ast.NotEq, ast.NotEq: ast.Eq}.get(type(op), type(op))()
        rejects_T = raises_after(flow.edges_out(cfg, t.id, 'T'))
        rejects_F = raises_after(flow.edges_out(cfg, t.id, 'F'))
        if rejects_T and not rejects_F:
            ok = isinstance(op, ast.Lt)
        elif rejects_F and not rejects_T:
            ok = isinstance(op, ast.GtE)
        else:
            raise UnknownIdiom('Request.range: comparison %s does not select between reject and accept' % short(t.ast))
        run.check(ok, 'Range first-last is rejected iff last < first (strict: a one-byte range is valid)', f, t.ast,
                  runtime_witness='Range: bytes=5-5 answered with 400, or bytes=5-4 accepted')
    if cmp_found < 1:
        raise AnchorError('Request.range: comparison of last against first not found')
    # missing '-', comma, missing unit => 4xx
    E = SiteEscape(p)
    for n in [x for x in walk_no_nested(f.node) if isinstance(x, ast.Raise) and x.exc is not None]:
        e = x_exc_class(p, f, n)
        if e is None or e == 'builtins.ValueError':
            continue
        run.check(is_4xx(p, e), 'Range: malformed values are answered with a 4xx error', f, n)
    # a range-spec without "-" must be rejected.  (The comma and the missing-unit
    # guards are redundant for *rejection*: without them the value still fails a
    # later int()/offset check with the same 400, so they are not demanded.)
    dash_guard = None
    dash_consulted = False
    for t in cfg.live_nodes():
        if t.kind != 'test':
            continue
        for x in t.walk():
            if isinstance(x, ast.Name) and x.id == sepname:
                dash_consulted = True
            if isinstance(x, ast.Constant) and x.value == '-':
                dash_consulted = True
        for lab in ('T', 'F'):
            if not raises_after(flow.edges_out(cfg, t.id, lab)):
                continue
            e = t.ast
            neg = lab == 'F'
            if isinstance(e, ast.UnaryOp) and isinstance(e.op, ast.Not):
                e, neg = e.operand, not neg
            if isinstance(e, ast.Name) and e.id == sepname and neg:
                dash_guard = t
            if (isinstance(e, ast.Compare) and len(e.ops) == 1 and isinstance(e.left, ast.Constant) and e.left.value == '-'
                    and isinstance(e.ops[0], (ast.In, ast.NotIn)) and (isinstance(e.ops[0], ast.In) == neg)):
                dash_guard = t
    if dash_guard is None and dash_consulted:
        raise UnknownIdiom('Request.range: the "-" separator is consulted in a way this rule does not understand')
    run.check(dash_guard is not None, 'Range: a range-spec without "-" is rejected (the separator of the partition is consulted)',
              f, dash_guard.ast if dash_guard is not None else 'range-guard:no-dash',
              runtime_witness='Range: bytes=5 read as the open range 5-')
    # range_unit: what precedes the first '='
    u = p.func(WSGI_REQ + '.range_unit')
    run.use(u)
    ok_unit = False
    uasg = assignments(u)

    def first_eq_index(e, base: str, depth=0) -> Optional[str]:
        """e denotes the position of an '=' in `base`: 'first' (<base>.index('=') / .find('=')), 'last' (rindex / rfind),
        also through a local bound once; None: something else."""
        if isinstance(e, ast.Name) and depth < 3:
            vals = uasg.get(e.id) or []
            return first_eq_index(vals[0], base, depth + 1) if len(vals) == 1 and vals[0] is not None else None
        if isinstance(e, ast.Call) and isinstance(e.func, ast.Attribute) and isinstance(e.func.value, ast.Name) and e.func.value.id == base \
                and len(e.args) == 1 and not e.keywords and isinstance(e.args[0], ast.Constant) and e.args[0].value == '=':
            return {'index': 'first', 'find': 'first?', 'rindex': 'last', 'rfind': 'last'}.get(e.func.attr)
        return None

    ucfg = None
    for r in [x for x in walk_no_nested(u.node) if isinstance(x, ast.Return) and x.value is not None]:
        v = r.value
        if isinstance(v, ast.Name):
            vals = uasg.get(v.id) or []
            if len(vals) == 1 and vals[0] is not None:
                v = vals[0]
        # <value>[:<value>.index('=')]: the text before the first '=' written as a slice
        if isinstance(v, ast.Subscript) and isinstance(v.value, ast.Name) and isinstance(v.slice, ast.Slice) and v.slice.step is None \
                and v.slice.upper is not None and (v.slice.lower is None or (isinstance(v.slice.lower, ast.Constant) and v.slice.lower.value == 0)):
            which = first_eq_index(v.slice.upper, v.value.id)
            if which is None:
                continue
            if which == 'first?':
                # find() answers -1 for "no '='": only under a guard that there is one
                ucfg = ucfg or cfg_of(u, p)
                base = v.value.id
                guarded = any(implied(test, truth, lambda e: isinstance(e, ast.Compare) and len(e.ops) == 1 and isinstance(e.ops[0], ast.In)
                                      and isinstance(e.left, ast.Constant) and e.left.value == '=' and isinstance(e.comparators[0], ast.Name)
                                      and e.comparators[0].id == base) is True
                              for test, truth in branch_facts(ucfg, node_of(ucfg, r)))
                if not guarded:
                    raise UnknownIdiom('Request.range_unit: %s without a dominating `"=" in %s` test' % (short(v), base))
                which = 'first'
            ok_unit = True
            run.check(which == 'first', 'range_unit is what precedes the first "="', u, r, runtime_witness="Range: a=b=0-1 has the unit 'a=b'")
        # <value>.partition('=')[0]: the head of the partition at the first '='
        elif isinstance(v, ast.Subscript) and isinstance(v.slice, ast.Constant) and type(v.slice.value) is int and isinstance(v.value, ast.Call) \
                and isinstance(v.value.func, ast.Attribute) and v.value.func.attr in ('partition', 'rpartition') and len(v.value.args) == 1 \
                and isinstance(v.value.args[0], ast.Constant) and v.value.args[0].value == '=' and not v.value.keywords:
            ok_unit = True
            run.check(v.value.func.attr == 'partition' and v.slice.value in (0, -3), 'range_unit is what precedes the first "="', u, r,
                      runtime_witness="Range: a=b=0-1 has the unit 'a=b'")
        # <value>.split('=', 1)[0] / .split('=')[0]
        elif isinstance(v, ast.Subscript) and isinstance(v.slice, ast.Constant) and v.slice.value == 0 and isinstance(v.value, ast.Call) \
                and isinstance(v.value.func, ast.Attribute) and v.value.func.attr in ('split', 'rsplit') and v.value.args \
                and isinstance(v.value.args[0], ast.Constant) and v.value.args[0].value == '=' and not v.value.keywords:
            ok_unit = True
            run.check(v.value.func.attr == 'split' or len(v.value.args) == 1, 'range_unit is what precedes the first "="', u, r,
                      runtime_witness="Range: a=b=0-1 has the unit 'a=b'")
    for n in walk_no_nested(u.node):
        if (isinstance(n, ast.Assign) and isinstance(n.value, ast.Call) and isinstance(n.value.func, ast.Attribute)
                and n.value.func.attr == 'partition' and n.value.args and isinstance(n.value.args[0], ast.Constant)
                and n.value.args[0].value == '=' and isinstance(n.targets[0], ast.Tuple) and isinstance(n.targets[0].elts[0], ast.Name)):
            unit = n.targets[0].elts[0].id
            rets = [r for r in walk_no_nested(u.node) if isinstance(r, ast.Return) and isinstance(r.value, ast.Name) and r.value.id == unit]
            ok_unit = bool(rets)
            run.check(ok_unit, 'range_unit is what precedes the first "="', u, n)
    if not ok_unit and not any(o['rule'] == run.current_rule and 'range_unit' in o['what'] for o in run.obligations):
        raise UnknownIdiom('Request.range_unit: partition("=") idiom not found')


def x_exc_class(p, f, n: ast.Raise) -> Optional[str]:
    e = n.exc.func if isinstance(n.exc, ast.Call) else n.exc
    return p.resolve_expr(f.module, e, f)


# ---------------------------------------------------------------------------
# R7 Forwarded: node identifiers and host are passed on verbatim
# ---------------------------------------------------------------------------

_CASE_CHANGERS = ('lower', 'upper', 'casefold', 'title', 'capitalize', 'swapcase')


_FWD_ATTRS = ('src', 'dest', 'host', 'scheme')
_FWD_PARSER = 'falcon.forwarded._parse_forwarded_header'


def _fwd_pair_unpacks(f: Func) -> List[tuple]:
    """[(statement, name variable)]: the statements that take the parameter name of a matched pair out of the match:
    `name, value = <m>.groups()` (or `.group(1, 2)`), `name, value = g` with g a local bound once to `<m>.groups()`, and
    `name = <m>.group(1)`."""
    def groups_call(e) -> bool:
        return isinstance(e, ast.Call) and isinstance(e.func, ast.Attribute) and e.func.attr in ('groups', 'group')

    asg = assignments(f)
    out = []
    for a in walk_self(f.node):
        if not (isinstance(a, ast.Assign) and len(a.targets) == 1):
            continue
        t, v = a.targets[0], a.value
        if isinstance(v, ast.Name) and len(asg.get(v.id) or []) == 1 and asg[v.id][0] is not None and groups_call(asg[v.id][0]) \
                and asg[v.id][0].func.attr == 'groups':
            v = asg[v.id][0]
        if isinstance(t, ast.Tuple) and t.elts and groups_call(v):
            if isinstance(t.elts[0], ast.Name):
                out.append((a, t.elts[0].id))
        elif isinstance(t, ast.Name) and groups_call(v) and v.func.attr == 'group' and len(v.args) == 1 and not v.keywords \
                and isinstance(v.args[0], ast.Constant) and v.args[0].value == 1:
            out.append((a, t.id))
    return out


def _fwd_name_vars(f: Func) -> Set[str]:
    """name variable(s): first element of a tuple unpacked from <match>.groups()"""
    name_vars = {nm for _a, nm in _fwd_pair_unpacks(f)}
    if not name_vars:
        raise AnchorError('_parse_forwarded_header: no `name, value = <match>.groups()` unpacking')

    # locals that only ever hold (a string-method image of) the parameter name
    def derived(e, also=None) -> bool:
        if isinstance(e, ast.Name):
            return e.id in name_vars or e.id == also
        return isinstance(e, ast.Call) and isinstance(e.func, ast.Attribute) and derived(e.func.value, also)

    asg = assignments(f)
    changed = True
    while changed:
        changed = False
        for nm, vals in asg.items():
            if nm not in name_vars and vals and all(v is not None and derived(v, nm) for v in vals) and any(derived(v) for v in vals):
                name_vars.add(nm)
                changed = True
    return name_vars


def _fwd_stores(p, f: Func):
    """Where the parser writes the four public fields of a hop.  Two shapes are
    read: `<elem>.<field> = ...` (one store per field) and the table-driven
    `setattr(<elem>, <attr>, ...)` whose <attr> is looked up in a module-level
    constant dict (folded through the module constants).
    -> [(fields written, statement/call node, attr variable or None, {param name: field} or None)]"""
    out = []
    asg = assignments(f)
    for n in walk_self(f.node):
        if isinstance(n, ast.Assign):
            hit = {t.attr for t in n.targets if isinstance(t, ast.Attribute) and t.attr in _FWD_ATTRS}
            if hit:
                out.append((hit, n, None, None))
        elif isinstance(n, ast.Call) and isinstance(n.func, ast.Name) and n.func.id == 'setattr' and len(n.args) == 3 \
                and p.resolve_callable(f, n.func) in ('builtins.setattr', None):
            a = n.args[1]
            v = p.fold(f.module, a, None, f)
            if isinstance(v, str):
                if v in _FWD_ATTRS:
                    out.append(({v}, n, None, None))
                continue
            if not isinstance(a, ast.Name):
                raise UnknownIdiom('_parse_forwarded_header: attribute name of %s is not a local or a constant' % short(n))
            vals = asg.get(a.id) or []
            if len(vals) != 1 or vals[0] is None:
                raise UnknownIdiom('_parse_forwarded_header: %s (the attribute name of %s) does not have exactly one plain binding' % (a.id, short(n)))
            look = vals[0]
            tbl = None
            if isinstance(look, ast.Subscript):
                tbl = look.value
            elif isinstance(look, ast.Call) and isinstance(look.func, ast.Attribute) and look.func.attr == 'get' and 1 <= len(look.args) <= 2:
                tbl = look.func.value
                if len(look.args) == 2 and not (isinstance(look.args[1], ast.Constant) and look.args[1].value is None):
                    raise UnknownIdiom('_parse_forwarded_header: table lookup with a default other than None: %s' % short(look))
            d = p.fold(f.module, tbl, None, f) if tbl is not None else UNKNOWN
            if not (isinstance(d, dict) and d and all(isinstance(k, str) and isinstance(x, str) for k, x in d.items())):
                raise UnknownIdiom('_parse_forwarded_header: %s = %s is not a lookup in a constant name->attribute table' % (a.id, short(look)))
            out.append((set(d.values()) & set(_FWD_ATTRS), n, a.id, dict(d)))
    covered = set()
    for hit, _n, _a, _d in out:
        covered |= hit
    if covered != set(_FWD_ATTRS):
        raise AnchorError('_parse_forwarded_header: stores of src/dest/host/scheme not found (%d: %s)' % (len(out), ', '.join(sorted(covered)) or 'none'))
    return out


def r7_forwarded_case(run):
    """RFC 7239: parameter NAMES are case-insensitive and `proto` is a scheme
    (case-insensitive); `for`/`by` may carry obfuscated identifiers (`_SEVKISEK`)
    and `host` a host name, which the accessor must hand on as received.
    Decided: in the Forwarded parser a case-changing string method is applied
    only to the parameter name of a pair or to the value stored as the scheme
    (either in the store itself, or to a local re-bound where the pair is known
    to be the scheme pair).
    W: `Forwarded: for=_SEVKISEK` -> req.forwarded[0].src == '_sevkisek'."""
    from .c09_helpers import branch_facts, inline_stmt_helpers, node_of
    p = run.project
    f = p.func(_FWD_PARSER)
    run.use(f)
    # the block that files a pair under by/for/host/proto may live in a plain module-level helper called as a statement
    # (`_set_forwarded_param(parsed_element, name, value)`): the parser is read with the helper's statements in place
    f = inline_stmt_helpers(p, f)
    parent = enclosing_map(f.node)
    name_vars = _fwd_name_vars(f)
    calls = [c for c in walk_self(f.node) if isinstance(c, ast.Call) and isinstance(c.func, ast.Attribute) and c.func.attr in _CASE_CHANGERS]
    stores = _fwd_stores(p, f)
    cfg = cfg_of(f, p)
    run.use_cfg(cfg)

    def eq_const(e):
        """(local, constant) of `local == 'constant'`"""
        if isinstance(e, ast.Compare) and len(e.ops) == 1 and isinstance(e.ops[0], ast.Eq):
            l, r = e.left, e.comparators[0]
            if isinstance(r, ast.Name) and isinstance(l, ast.Constant):
                l, r = r, l
            if isinstance(l, ast.Name) and isinstance(r, ast.Constant) and isinstance(r.value, str):
                return (l.id, r.value)
        return None

    # (local, constant) facts under which the pair at hand is the scheme pair
    scheme_facts: Set[tuple] = set()
    for hit, n, attr_var, table in stores:
        if attr_var is not None:
            scheme_facts.add((attr_var, 'scheme'))
            for k, v in table.items():
                if v == 'scheme':
                    scheme_facts |= {(nv, k) for nv in name_vars}
        elif hit == {'scheme'}:
            for test, truth in branch_facts(cfg, node_of(cfg, n)):
                for x in walk_self(test):
                    ec = eq_const(x)
                    if ec is not None and ec[0] in name_vars and implied(test, truth, lambda e, x=x: e is x) is True:
                        scheme_facts.add(ec)

    def scheme_only(nid) -> bool:
        for test, truth in branch_facts(cfg, nid):
            if implied(test, truth, lambda e: eq_const(e) in scheme_facts) is True:
                return True
        return False

    n_ok = 0
    for c in calls:
        recv = c.func.value
        st = c
        while not isinstance(st, ast.stmt):
            st = parent[id(st)]
        ok = False
        if isinstance(recv, ast.Name) and recv.id in name_vars:
            ok = True
        elif isinstance(st, ast.Assign) and all(isinstance(t, ast.Attribute) and t.attr == 'scheme' for t in st.targets):
            ok = True
        elif isinstance(st, ast.Assign) and all(isinstance(t, ast.Name) for t in st.targets) and scheme_only(node_of(cfg, c)):
            ok = True  # `value = value.lower()` where the pair is known to be the scheme pair
        else:
            # `<folded> if <scheme pair> else <verbatim>`
            child = c
            for anc in ancestors_of(c, parent):
                if isinstance(anc, ast.IfExp) and child is not anc.test \
                        and implied(anc.test, child is anc.body, lambda e: eq_const(e) in scheme_facts) is True:
                    ok = True
                if isinstance(anc, ast.stmt):
                    break
                child = anc
        n_ok += ok
        run.check(ok, 'a case-changing method in the Forwarded parser applies to a parameter name or to the scheme only '
                      '(for=/by=/host= values are handed on verbatim)', f, st,
                  runtime_witness="Forwarded: for=_SEVKISEK;by=_BT -> req.forwarded[0].src == '_sevkisek', req.access_route == ['_sevkisek', ...]")
    if not calls:
        raise AnchorError('_parse_forwarded_header: parameter names are not case-folded at all')


def r9_optional_accessors_guarded(run):
    """Several header accessors answer None for an absent (or blank) header.
    Another accessor of the same request object that ITERATES such a value
    (access_route over forwarded) must supply the empty fallback itself
    (`self.X or ()`) or sit behind a test of `self.X`: iterating None is a
    TypeError, i.e. a 500 on a request the client can send."""
    p = run.project
    from .c09_helpers import node_of
    n_sites = 0
    for cq in (WSGI_REQ, ASGI_REQ):
        members = effective_members(p, cq)
        optional = set()
        for name, m in members.items():
            if m.kind != 'property' or m.func is None:
                continue
            for r in walk_no_nested(m.func.node):
                if isinstance(r, ast.Return) and (r.value is None or (isinstance(r.value, ast.Constant) and r.value.value is None)):
                    optional.add(name)
        if 'forwarded' not in members:
            raise AnchorError('%s: accessor forwarded not found' % cq)
        seen = set()
        for name, m in sorted(members.items()):
            f = m.func
            if f is None or id(f) in seen or f.cls is None or f.cls.qual not in (WSGI_REQ, ASGI_REQ):
                continue
            seen.add(id(f))
            sites = []
            for x in walk_no_nested(f.node):
                its = []
                if isinstance(x, (ast.For, ast.AsyncFor)):
                    its.append(x.iter)
                elif isinstance(x, (ast.ListComp, ast.SetComp, ast.DictComp, ast.GeneratorExp)):
                    its += [g.iter for g in x.generators]
                for it in its:
                    if isinstance(it, ast.Attribute) and isinstance(it.value, ast.Name) and it.value.id == 'self' and it.attr in optional:
                        sites.append((x, it))
            if not sites:
                continue
            cfg = cfg_of(f, p)
            run.use_cfg(cfg)
            for x, it in sites:
                n_sites += 1
                attr = it.attr

                def truthy(e, attr=attr):
                    return isinstance(e, ast.Attribute) and e.attr == attr and isinstance(e.value, ast.Name) and e.value.id == 'self'

                def is_none(e, attr=attr):
                    return (isinstance(e, ast.Compare) and len(e.ops) == 1 and isinstance(e.ops[0], ast.Is) and truthy(e.left)
                            and isinstance(e.comparators[0], ast.Constant) and e.comparators[0].value is None)

                def not_none(e, attr=attr):
                    return (isinstance(e, ast.Compare) and len(e.ops) == 1 and isinstance(e.ops[0], ast.IsNot) and truthy(e.left)
                            and isinstance(e.comparators[0], ast.Constant) and e.comparators[0].value is None)

                nid = node_of(cfg, x) if not isinstance(x, (ast.For, ast.AsyncFor)) else None
                if nid is None:
                    ids = [n.id for n in cfg.live_nodes() if n.ast is x or (n.kind == 'iter' and n.stmt is x)]
                    nid = ids[0] if ids else None
                guarded = False
                if nid is not None:
                    for t in cfg.live_nodes():
                        if t.kind != 'test':
                            continue
                        for (y, l) in cfg.succ[t.id]:
                            if l not in ('T', 'F'):
                                continue
                            ok = implied(t.ast, l == 'T', truthy) is True or implied(t.ast, l == 'T', not_none) is True \
                                or implied(t.ast, l == 'T', is_none) is False
                            if ok and flow.dominated_by_edge(cfg, nid, (t.id, y, l)):
                                guarded = True
                run.check(guarded, '%s iterates self.%s, which answers None for an absent/blank header, only with an empty fallback or behind a test of it'
                          % (f.qual, attr), f, it if not isinstance(x, ast.For) else x.iter,
                          runtime_witness="a request carrying the header with a blank value ('Forwarded: '): req.%s raises TypeError (500)" % name)
    if not n_sites:
        run.ok('no accessor iterates an Optional accessor of the same request without a fallback (the `self.X or ()` form is not a bare iteration)',
               'falcon/request.py', 'optional accessors')


# ---------------------------------------------------------------------------
# R10 entity-tag reader: the wildcard is the WHOLE header value
# ---------------------------------------------------------------------------

_STR_PROBES = ('startswith', 'endswith', 'count', 'find', 'rfind', 'index', 'rindex')
_COMMA_CUTTERS = ('split', 'rsplit', 'partition', 'rpartition')


def r10_etag_wildcard(run):
    """RFC 9110 13.1.1/13.1.2: If-Match / If-None-Match = "*" / #entity-tag.
    The wildcard is the whole field value; inside a quoted opaque-tag both ','
    and '*' are ordinary characters (etagc), so `"a,*,b"` is ONE strong tag.
    Decided on `_parse_etags`:
     (a) every place that produces the wildcard constant (a return value, an
         element appended to the answer, ...) is dominated by an equality test
         of the whole -- at most stripped -- parameter with '*';
     (b) the header text is never cut at commas (`split(',')`, `partition`,
         `re.split`) with the pieces put to use: the only tokeniser that finds
         list members is the quote-aware entity-tag pattern R4 validates.
    W: `If-Match: "a,*,b"` read as ['*']."""
    from .c09_helpers import branch_facts, node_of
    p = run.project
    f = p.func('falcon.request_helpers._parse_etags')
    cfg = cfg_of(f, p)
    run.use_cfg(cfg)
    params = f.params()
    if not params:
        raise AnchorError('_parse_etags has no parameter')
    prm = params[0]
    asg = assignments(f)
    parent = enclosing_map(f.node)

    def ws_only(e) -> bool:
        v = p.fold(f.module, e, None, f)
        return isinstance(v, str) and v.strip() == ''

    def whole(e, names) -> bool:
        if isinstance(e, ast.Name):
            return e.id in names
        if isinstance(e, ast.Call) and isinstance(e.func, ast.Attribute) and e.func.attr in ('strip', 'lstrip', 'rstrip') \
                and not e.keywords and all(ws_only(a) for a in e.args):
            return whole(e.func.value, names)
        return False

    W = {prm}
    changed = True
    while changed:
        changed = False
        for nm, vals in asg.items():
            if nm not in W and vals and all(v is not None and whole(v, W) for v in vals):
                W.add(nm)
                changed = True
    for v in asg.get(prm, []):
        if v is None or not whole(v, W):
            raise UnknownIdiom('_parse_etags: the header parameter %s is re-bound to something other than its stripped self' % prm)

    def fold(e):
        return p.fold(f.module, e, None, f)

    # locals that only ever hold the wildcard constant (`wild = '*'`) stand for it
    star_locals = {nm for nm, vals in asg.items() if nm not in params and vals
                   and all(v is not None and isinstance(v, (ast.Constant, ast.Name, ast.Attribute)) and fold(v) == '*' for v in vals)}

    def star(e) -> bool:
        if isinstance(e, ast.Name) and e.id in star_locals:
            return True
        return isinstance(e, (ast.Constant, ast.Name, ast.Attribute)) and fold(e) == '*'

    def star_seq(e) -> bool:
        if isinstance(e, (ast.Tuple, ast.List, ast.Set)):
            return len(e.elts) > 0 and all(star(x) for x in e.elts)
        v = fold(e)
        return isinstance(v, (tuple, list, frozenset, set)) and len(v) > 0 and all(x == '*' for x in v)

    def has_star(e) -> bool:
        if not isinstance(e, (ast.Constant, ast.Name, ast.Attribute)):
            return False
        if star(e):
            return True
        v = fold(e)
        return isinstance(v, (tuple, list, frozenset, set)) and any(x == '*' for x in v)

    def cmp_whole(e, eq_op, in_op) -> bool:
        if not (isinstance(e, ast.Compare) and len(e.ops) == 1):
            return False
        l, r, op = e.left, e.comparators[0], e.ops[0]
        if isinstance(op, eq_op):
            return (whole(l, W) and star(r)) or (whole(r, W) and star(l))
        return isinstance(op, in_op) and whole(l, W) and star_seq(r)

    def is_eq(e):
        return cmp_whole(e, ast.Eq, ast.In)

    def is_ne(e):
        return cmp_whole(e, ast.NotEq, ast.NotIn)

    def establishes(test, truth) -> bool:
        return implied(test, truth, is_eq) is True or implied(test, truth, is_ne) is False

    # annotations mention Literal['*']: types, not values
    skip = set()
    for n in ast.walk(f.node):
        for fld in ('annotation', 'returns'):
            a = getattr(n, fld, None)
            if isinstance(a, ast.AST):
                skip |= {id(x) for x in ast.walk(a)}
    producers = []
    n_tests = 0
    for n in walk_no_nested(f.node):
        if id(n) in skip or not has_star(n):
            continue
        if isinstance(n, ast.Name) and not isinstance(n.ctx, ast.Load):
            continue
        par = parent.get(id(n))
        gp = parent.get(id(par)) if par is not None else None
        if isinstance(par, ast.Compare) or (isinstance(par, (ast.Tuple, ast.List, ast.Set)) and isinstance(gp, ast.Compare)):
            n_tests += 1
            continue  # an operand of a comparison: it counts only if it is the whole-value equality (is_eq / is_ne)
        if isinstance(par, (ast.Assign, ast.AnnAssign)) and par.value is n and all(
                isinstance(t, ast.Name) and t.id in star_locals for t in (par.targets if isinstance(par, ast.Assign) else [par.target])):
            continue  # naming the constant: the uses of the name are examined
        if isinstance(par, ast.Call) and isinstance(par.func, ast.Attribute) and par.func.attr in _STR_PROBES and n in par.args:
            n_tests += 1
            continue  # a substring probe decides nothing by itself; what it guards is examined as a producer
        producers.append(n)
    if not producers:
        raise AnchorError("_parse_etags: no place producing the wildcard answer '*' found")
    for n in producers:
        nid = node_of(cfg, n)
        ok = any(establishes(test, truth) for test, truth in branch_facts(cfg, nid))
        if not ok:
            # conditional expression around the producer
            child = n
            for anc in ancestors_of(n, parent):
                if isinstance(anc, ast.IfExp) and child is not anc.test and establishes(anc.test, child is anc.body):
                    ok = True
                if isinstance(anc, ast.stmt):
                    break
                child = anc
        st = n
        while not isinstance(st, ast.stmt):
            st = parent[id(st)]
        # name the violation by the test that lets the wildcard through (the innermost enclosing branch)
        decider = next((a for a in ancestors_of(st, parent) if isinstance(a, (ast.If, ast.While))), None)
        tests = [short(t.ast) for t in cfg.live_nodes() if t.kind == 'test' and any(has_star(x) or (isinstance(x, ast.Constant) and x.value == ',') for x in t.walk())]
        run.check(ok, "_parse_etags answers the wildcard '*' only where the whole (stripped) header value equals '*' "
                      "(',' and '*' are ordinary characters inside a quoted opaque-tag)", f,
                  '%s  [under: %s]' % (short(st if not isinstance(st, (ast.If, ast.While, ast.For)) else n, 80),
                                       short(decider.test, 100) if decider is not None else 'no test'),
                  witness=["tests that mention '*' or ',': %s" % '; '.join(tests)],
                  runtime_witness="If-Match: \"a,*,b\" (one valid strong entity-tag) is read as ['*'] -- the precondition matches anything")
    # (b) comma cutting
    n_cut = 0
    for c in walk_no_nested(f.node):
        if not isinstance(c, ast.Call):
            continue
        cut = False
        if isinstance(c.func, ast.Attribute) and c.func.attr in _COMMA_CUTTERS and whole(c.func.value, W) and c.args:
            v = p.fold(f.module, c.args[0], None, f)
            if v is UNKNOWN:
                raise UnknownIdiom('_parse_etags: the header value is split at a non-constant separator: %s' % short(c))
            cut = isinstance(v, str) and ',' in v
        else:
            q = p.resolve_callable(f, c.func)
            if isinstance(q, str) and q in ('re.split',) and len(c.args) >= 2 and whole(c.args[1], W):
                v = p.fold(f.module, c.args[0], None, f)
                if v is UNKNOWN:
                    raise UnknownIdiom('_parse_etags: the header value is split at a non-constant pattern: %s' % short(c))
                cut = isinstance(v, str) and ',' in v
        if not cut:
            continue
        n_cut += 1
        par = parent.get(id(c))
        only_counted = isinstance(par, ast.Call) and isinstance(par.func, ast.Name) and par.func.id == 'len'
        unused = isinstance(par, ast.Expr)
        run.check(only_counted or unused,
                  '_parse_etags finds list members only with the quote-aware entity-tag pattern; the header text is not cut at commas '
                  '(a comma is legal inside a quoted opaque-tag)', f, c,
                  runtime_witness='If-None-Match: "a,b" (one tag) is taken apart into the pieces \'"a\' and \'b"\'')
    if not n_cut:
        run.ok('_parse_etags never cuts the header text at commas (members are found by the quote-aware pattern only)', f.loc(), 'comma tokenisers: none')
    run.extra['c09_r10'] = {'whole_value_names': sorted(W), 'wildcard_producers': len(producers), 'wildcard_tests': n_tests}


def ancestors_of(node, parent):
    cur = parent.get(id(node))
    while cur is not None:
        yield cur
        cur = parent.get(id(cur))


# ---------------------------------------------------------------------------
# R11 Forwarded: every consumed pair makes its element exist
# ---------------------------------------------------------------------------

def r11_forwarded_element_present(run):
    """RFC 7239 4: forwarded-element = [ forwarded-pair ] *( ";" [ forwarded-pair ] ),
    forwarded-pair = token "=" value -- extension parameters are allowed, and an
    element made only of them is still one hop.  req.forwarded is positional
    (forwarded_host/scheme/uri/prefix read hop 0, access_route walks the hops in
    order), so a hop that disappears shifts every later hop.
    Decided: on every path through one iteration of the parser's loop that
    consumes a matched pair (`name, value = <match>.groups()`), the element
    object exists when the iteration ends: the path passes a creation
    `<elem> = Forwarded()` or a branch outcome that says <elem> is already there.
    W: `Forwarded: secret=k3y, for=10.0.0.1;host=internal` -> one hop instead of two."""
    p = run.project
    f = p.func(_FWD_PARSER)
    cfg = cfg_of(f, p)
    run.use_cfg(cfg)
    parent = enclosing_map(f.node)
    _fwd_name_vars(f)
    unpack = [a for a, _nm in _fwd_pair_unpacks(f)]

    def creates(e) -> bool:
        if isinstance(e, ast.Call):
            t = p.resolve_callable(f, e.func)
            return getattr(t, 'qual', None) == 'falcon.forwarded.Forwarded'
        return False

    elem_vars = set()
    for n in walk_self(f.node):
        if isinstance(n, (ast.Assign, ast.AnnAssign)) and n.value is not None and any(creates(x) for x in walk_self(n.value)):
            tg = n.targets if isinstance(n, ast.Assign) else [n.target]
            for t in tg:
                if isinstance(t, ast.Name):
                    elem_vars.add(t.id)
                else:
                    raise UnknownIdiom('_parse_forwarded_header: a Forwarded() object is created into %s' % short(t))
    if not elem_vars:
        raise AnchorError('_parse_forwarded_header: no `<element> = Forwarded()` creation found')
    if len(elem_vars) > 1:
        raise UnknownIdiom('_parse_forwarded_header: several element variables: %s' % ', '.join(sorted(elem_vars)))
    elem = next(iter(elem_vars))

    def is_elem(e):
        return isinstance(e, ast.Name) and e.id == elem

    def creation_value(v) -> bool:
        if creates(v):
            return True
        if isinstance(v, ast.BoolOp) and isinstance(v.op, ast.Or):
            return all(is_elem(x) for x in v.values[:-1]) and creates(v.values[-1])
        if isinstance(v, ast.IfExp):
            # <elem> if <elem present> else Forwarded()   /   Forwarded() if <elem absent> else <elem>
            t_body = present(v.test, True)
            t_else = present(v.test, False)
            if is_elem(v.body) and creates(v.orelse):
                return t_body is True
            if creates(v.body) and is_elem(v.orelse):
                return t_else is True
        return False

    def truthy(e):
        return is_elem(e)

    def cmp_none(e, op):
        return (isinstance(e, ast.Compare) and len(e.ops) == 1 and isinstance(e.ops[0], op) and is_elem(e.left)
                and isinstance(e.comparators[0], ast.Constant) and e.comparators[0].value is None)

    def present(test, truth) -> Optional[bool]:
        """does this branch outcome say that the element object exists?"""
        if implied(test, truth, truthy) is True or implied(test, truth, lambda e: cmp_none(e, ast.IsNot)) is True \
                or implied(test, truth, lambda e: cmp_none(e, ast.Is)) is False:
            return True
        return None

    creation_nodes = set()
    for n in cfg.live_nodes():
        if n.kind != 'stmt' or not isinstance(n.ast, (ast.Assign, ast.AnnAssign)):
            continue
        a = n.ast
        tg = a.targets if isinstance(a, ast.Assign) else [a.target]
        if not any(is_elem(x) for t in tg for x in ([t] if not isinstance(t, (ast.Tuple, ast.List)) else ast.walk(t))):
            continue  # `<elem>.<field> = ...` writes a field; it does not bind the element variable
        if len(tg) != 1 or not is_elem(tg[0]) or a.value is None:
            raise UnknownIdiom('_parse_forwarded_header: %s is bound by %s' % (elem, short(a)))
        if creation_value(a.value):
            creation_nodes.add(n.id)
        elif isinstance(a.value, ast.Constant) and a.value.value is None:
            pass  # reset between elements
        else:
            raise UnknownIdiom('_parse_forwarded_header: %s is bound to %s (neither a fresh Forwarded() nor None)' % (elem, short(a.value)))
    present_edges = set()
    for t in cfg.live_nodes():
        if t.kind != 'test':
            continue
        for (y, l) in cfg.succ[t.id]:
            if l in ('T', 'F') and present(t.ast, l == 'T'):
                present_edges.add((t.id, y, l))
    if not unpack:
        raise AnchorError('_parse_forwarded_header: no `name, value = <match>.groups()` unpacking')
    for u in unpack:
        loop = None
        for anc in ancestors_of(u, parent):
            if isinstance(anc, (ast.While, ast.For)):
                loop = anc
                break
        if loop is None:
            raise UnknownIdiom('_parse_forwarded_header: the pair is not consumed inside a loop')
        body_ids = set()
        for s_ in loop.body:
            body_ids |= {id(x) for x in walk_self(s_)}
        body = set()
        for n in cfg.live_nodes():
            key = n.ast if n.ast is not None else n.stmt
            if key is not None and id(key) in body_ids:
                body.add(n.id)
        goals = {n.id for n in cfg.live_nodes() if n.id not in body and n.kind not in ('entry', 'xexit')
                 and (n.kind == 'exit' or n.ast is not None or n.stmt is not None)}
        heads = [n.id for n in cfg.live_nodes() if n.stmt is loop and n.kind in ('test', 'iter')]
        if not heads:
            raise UnknownIdiom('_parse_forwarded_header: loop head not found in the CFG')
        starts = [y for h in heads for (y, l) in cfg.succ[h] if l in ('T', 'next') and y in body]
        uid = [n.id for n in cfg.live_nodes() if n.ast is u and not n.copy]
        if len(uid) != 1 or not starts:
            raise UnknownIdiom('_parse_forwarded_header: CFG position of %s not unique' % short(u))
        uid = uid[0]
        # may an iteration arrive at the unpacking with no element yet?  (the first pair of an element does)
        before = flow.reachable(cfg, starts, avoid_nodes=creation_nodes | goals, avoid_edges=present_edges, edge_filter=flow.no_exc)
        path = None
        if uid in before:
            path = flow.find_path(cfg, [uid], goals, avoid_nodes=creation_nodes, avoid_edges=present_edges, edge_filter=flow.no_exc)
        what = ('every path of one parser iteration that consumes a matched forwarded-pair (known parameter or extension) leaves the element '
                'object created (an element made only of extension parameters is still one hop)')
        if path is None:
            run.ok(what, f.loc(u), u)
        else:
            tests = [cfg.node(x) for x in path[:-1] if cfg.node(x).kind == 'test']
            about_elem = [t for t in tests if any(is_elem(x) for x in t.walk())]
            bad = about_elem[-1] if about_elem else tests[-1] if tests else cfg.node(path[-2] if len(path) > 1 else path[-1])
            run.fail('a matched forwarded-pair can end its iteration without the element object having been created: an element made only of '
                     'such pairs yields no hop and every later hop shifts down', f, bad.ast if bad.ast is not None else bad.text(),
                     where='%s:%s' % (f.file, bad.lineno), witness=flow.describe_path(cfg, path),
                     runtime_witness='Forwarded: secret=k3y, for=10.0.0.1;host=internal;proto=https -> req.forwarded has 1 hop instead of 2; '
                                     "req.forwarded_host == 'internal' and req.forwarded_scheme == 'https' are read from what is really the second hop")
    run.extra['c09_r11'] = {'element_variable': elem, 'creation_nodes': len(creation_nodes), 'present_edges': len(present_edges)}

# ---------------------------------------------------------------------------
# R12 access_route: parse_host receives the Forwarded node value itself
# ---------------------------------------------------------------------------

_PARSE_HOST = 'falcon.util.uri.parse_host'
_COLON_CUTTERS = ('split', 'rsplit', 'partition', 'rpartition')


def _node_provenance(p, f: Func, hop: str, attr: str):
    """Provenance of a text relative to `<hop>.<attr>` (the node value of one Forwarded element): the engine's
    value-provenance reader (sa.rules.c15_helpers.Provenance), rooted at an attribute of the loop variable instead
    of a parameter, and reading tuple-unpacked pieces of a str cutter as a narrowing step."""
    from .c15_helpers import NARROWING_METHODS, Origin, Provenance

    class NodeProvenance(Provenance):
        def _is_root(self, e):
            return isinstance(e, ast.Attribute) and e.attr == attr and isinstance(e.value, ast.Name) and e.value.id == hop

        def _name(self, name, nid):
            if name == hop:
                return Origin()          # the element object, not its text
            return Provenance._name(self, name, nid)

        def classify_any(self, e, nid):
            out = Origin()
            stack = [e]
            while stack:
                x = stack.pop()
                if self._is_root(x):
                    out = out.merge(Origin(True))
                    continue
                if isinstance(x, ast.Name) and isinstance(x.ctx, ast.Load):
                    out = out.merge(self._name(x.id, nid))
                if isinstance(x, (ast.Lambda, ast.FunctionDef, ast.AsyncFunctionDef)):
                    continue
                stack.extend(ast.iter_child_nodes(x))
            return out

        def classify(self, e, nid):
            if self._is_root(e):
                return Origin(True)
            if isinstance(e, ast.Attribute) and isinstance(e.value, ast.Name) and e.value.id == hop:
                return Origin()          # another field of the element
            return Provenance.classify(self, e, nid)

        def _def(self, d):
            if d.kind == 'unpack' and d.idx not in self._memo:
                v = d.value
                if isinstance(v, ast.Call) and isinstance(v.func, ast.Attribute) and v.func.attr in NARROWING_METHODS:
                    recv = self.classify(v.func.value, d.node)
                    if recv.derived:
                        r = recv.step('narrow', v, 'a tuple-unpacked piece of str.%s' % v.func.attr)
                        self._memo[d.idx] = r
                        return r
            return Provenance._def(self, d)

    return NodeProvenance(p, f, None, root_local=hop)


def r12_route_node_verbatim(run):
    """RFC 7239 6: node = nodename [ ":" node-port ], nodename = IPv4address / "[" IPv6address "]" / "unknown" /
    obfnode.  Only `parse_host` knows the bracket grammar (C10 R6 decides it), so the text both `access_route`
    implementations hand to it from a Forwarded `for=` node must be the node value itself: no colon-based
    pre-splitting (rpartition / split / slicing), no rewriting on the way.  (A whitespace strip is a lenient
    reading and is let through.)
    W: `Forwarded: for="[2001:db8:cafe::17]"` -> access_route[0] == '2001:db8:cafe'; `for="[::1]"` -> ''."""
    from .c09_helpers import node_of
    p = run.project
    target = p.func(_PARSE_HOST)
    n_calls = 0
    for cq in (WSGI_REQ, ASGI_REQ):
        f = p.lookup_method(cq, 'access_route')
        if f is None or f.cls is None or f.cls.qual != cq:
            raise AnchorError('%s does not define access_route' % cq)
        run.use(f)
        loops = [n for n in walk_no_nested(f.node) if isinstance(n, ast.For) and isinstance(n.target, ast.Name)
                 and any(is_self_attr(x, 'forwarded') for x in walk_self(n.iter))]
        if len(loops) != 1:
            raise UnknownIdiom('%s: expected one loop over the elements of self.forwarded, found %d' % (f.qual, len(loops)))
        loop = loops[0]
        hop = loop.target.id
        calls = [c for c in walk_no_nested(loop) if isinstance(c, ast.Call) and p.resolve_callable(f, c.func) is target]
        if not calls:
            raise AnchorError('%s: the hop loop does not call parse_host' % f.qual)
        # which field of the element is the node: the one the guarded call reads (`for=` is stored as .src by the parser, R7)
        prov = _node_provenance(p, f, hop, 'src')
        cfg = cfg_of(f, p)
        run.use_cfg(cfg)
        for c in calls:
            n_calls += 1
            if not c.args:
                raise UnknownIdiom('%s: %s passes the host by keyword' % (f.qual, short(c)))
            o = prov.classify(c.args[0], node_of(cfg, c))
            if not o.derived:
                raise UnknownIdiom('%s: the argument of %s does not derive from %s.src' % (f.qual, short(c), hop))
            bad = []
            for kind, node, why in o.xforms:
                if isinstance(node, ast.Call) and isinstance(node.func, ast.Attribute) and node.func.attr in ('strip', 'lstrip', 'rstrip') \
                        and not node.keywords and all(isinstance(a, ast.Constant) and isinstance(a.value, str) and a.value.strip() == '' for a in node.args):
                    continue  # whitespace only: a lenient reading
                bad.append((kind, node, why))
            if not bad:
                run.ok('%s hands the Forwarded node value (%s.src) to parse_host as it is' % (f.qual, hop), f.loc(c), c)
                continue
            seen = set()
            for kind, node, why in bad:
                k = short(node, 120)
                if k in seen:
                    continue
                seen.add(k)
                run.fail('%s cuts / rewrites the Forwarded node value before parse_host sees it (%s): only parse_host knows that the colons '
                         'inside "[...]" belong to an IPv6 address' % (f.qual, why), f, node, where=f.loc(node),
                         witness=['argument of %s' % short(c)] + o.describe(),
                         runtime_witness='Forwarded: for="[2001:db8:cafe::17]" (no port) -> req.access_route[0] == \'2001:db8:cafe\'; for="[::1]" -> \'\'')
    run.extra['c09_r12'] = {'parse_host_calls_in_hop_loops': n_calls}

# ---------------------------------------------------------------------------
# R13 Forwarded: a quoted value is read as RFC 9110 5.6.4 says (sample evaluation)
# ---------------------------------------------------------------------------

_FWD_FIELD = {'for': 'src', 'by': 'dest', 'host': 'host', 'proto': 'scheme'}
# raw parameter values (RFC 7239 4: value = token / quoted-string): quoted-strings with a quoted-pair at the
# start, in the middle and -- the case slicing-by-character-class gets wrong -- at the very end
_FWD_QUOTED = (r'"192.0.2.43:47011"', r'"[2001:db8:cafe::17]:4711"', r'"[2001:db8:cafe::17]"', r'""', r'"\""', r'"\"quoted\""',
               r'"203.0.113.43\""', r'"1\.2\.3\.4"', r'"\"\\"', r'"a\\"', r'"\\\""', r'"_don\"t_\try_this\\at_home_\42"', r'"x y"', r'"a,b;c=d"',
               r'"\"\""')
_FWD_TOKENS = ('192.0.2.60', '_SEVKISEK', 'unknown', 'example.com')


def _ref_unquote(raw: str) -> str:
    """quoted-string = DQUOTE *( qdtext / quoted-pair ) DQUOTE; quoted-pair = "\\" ( HTAB / SP / VCHAR / obs-text ):
    drop the two enclosing DQUOTEs, replace every quoted-pair by its second octet."""
    body = raw[1:-1]
    out = []
    i = 0
    while i < len(body):
        if body[i] == '\\' and i + 1 < len(body):
            out.append(body[i + 1])
            i += 2
        else:
            out.append(body[i])
            i += 1
    return ''.join(out)


def _fwd_samples():
    """[(header text, [expected {field: value}])]"""
    out = []
    names = ('for', 'by', 'host')
    # one element per quoted value, the parameter name rotating; a second parameter after it shows that the cut ends at the right quote
    for i, raw in enumerate(_FWD_QUOTED):
        nm = names[i % 3]
        other = 'proto' if nm != 'by' else 'host'
        oval = 'HTTPS' if other == 'proto' else 'example.org'
        out.append(('%s=%s;%s=%s' % (nm, raw, other, oval), [{nm: raw, other: oval}]))
    out.append(('for=%s;by=%s, for=%s;proto=%s;host=%s' % (_FWD_TOKENS[0], _FWD_TOKENS[1], _FWD_QUOTED[6], '"HTTP"', _FWD_TOKENS[3]),
                [{'for': _FWD_TOKENS[0], 'by': _FWD_TOKENS[1]}, {'for': _FWD_QUOTED[6], 'proto': '"HTTP"', 'host': _FWD_TOKENS[3]}]))
    out.append(('For=%s, FOR=%s' % (_FWD_TOKENS[2], _FWD_QUOTED[5]), [{'for': _FWD_TOKENS[2]}, {'for': _FWD_QUOTED[5]}]))
    res = []
    for text, elems in out:
        exp = []
        for el in elems:
            d = {'src': None, 'dest': None, 'host': None, 'scheme': None}
            for nm, raw in el.items():
                v = _ref_unquote(raw) if raw.startswith('"') else raw
                d[_FWD_FIELD[nm]] = v.lower() if nm == 'proto' else v
            exp.append(d)
        res.append((text, exp))
    return res


def r13_forwarded_quoted_values(run):
    """RFC 7239 4 / RFC 9110 5.6.4: a quoted parameter value stands for the text between its two enclosing
    DQUOTEs with every quoted-pair `\\x` replaced by `x` -- exactly ONE leading and ONE trailing DQUOTE go
    (`.strip('"')`, `.replace('"', '')` remove more), and the un-escaping comes after.  Decided by evaluating
    `_parse_forwarded_header` (and the helpers / module-level patterns it uses) on a finite set of sample headers
    whose quoted-strings carry a quoted-pair first, in the middle and last, against an independent reader.
    W: `Forwarded: host="\\"quoted\\""` -> req.forwarded[0].host == '"quoted\\\\' instead of '"quoted"'."""
    from .c09_helpers import CObj, ConcreteEval, CRaise
    p = run.project
    f = p.func(_FWD_PARSER)
    run.use(f)
    if len(f.params()) != 1:
        raise AnchorError('%s: expected one parameter (the header text)' % f.qual)
    problems: Dict[str, dict] = {}
    n_ok = 0
    samples = _fwd_samples()
    for text, exp in samples:
        ev = ConcreteEval(p)
        try:
            got = ev.call_func(f, [text], {})
        except CRaise as ex:
            raise UnknownIdiom('%s: evaluating the parser on the sample %r raised %s at %s' % (f.qual, text, ex.cls, short(ex.node, 60) if ex.node is not None else '?'))
        if not isinstance(got, list) or not all(isinstance(x, CObj) for x in got):
            raise UnknownIdiom('%s: the parser does not answer a list of Forwarded objects on the sample %r' % (f.qual, text))
        obs = [{k: x.attrs.get(k) for k in _FWD_ATTRS} for x in got]
        if obs == exp:
            n_ok += 1
            run.ok('Forwarded: %s is read as %s (independent RFC 9110 quoted-string reader agrees)' % (
                text, '; '.join(','.join('%s=%r' % (k, v) for k, v in d.items() if v is not None) for d in exp)), f.loc(), 'sample: %s' % text)
            continue
        # name the construct that produced the first wrong field
        cons = None
        detail = 'the parser answers %d element(s), the header has %d' % (len(obs), len(exp))
        for i, (o, e) in enumerate(zip(obs, exp)):
            for k in _FWD_ATTRS:
                if o[k] != e[k] and cons is None:
                    detail = 'element %d: %s is %r, an RFC-level reader gives %r' % (i, k, o[k], e[k])
                    store_at = None
                    for j, t in enumerate(ev.trace):
                        if t[0] == 'setattr' and t[2][0] is got[i] and t[2][1] == k and t[2][2] == o[k]:
                            store_at = j
                    if store_at is not None:
                        cons = ev.trace[store_at][1]
                        for t in reversed(ev.trace[:store_at]):
                            if t[0] == 'setattr' and t[3] == f.qual:
                                break
                            if t[0] == 'assign' and t[3] == f.qual and isinstance(t[2], str) and t[2] == o[k] and isinstance(t[1], ast.Assign) \
                                    and all(isinstance(x, ast.Name) for x in t[1].targets) and not isinstance(t[1].value, ast.Name):
                                cons = t[1]
                                break
        key = short(cons, 160) if cons is not None else 'elements'
        d = problems.setdefault(key, {'cons': cons, 'wit': []})
        d['wit'].append('Forwarded: %s -> %s' % (text, detail))
    for key in sorted(problems):
        d = problems[key]
        cons = d['cons'] if d['cons'] is not None else 'forwarded-elements'
        run.fail('the Forwarded parser does not read a syntactically valid header as RFC 7239 / RFC 9110 5.6.4 say '
                 '(a quoted value = the text between its two enclosing DQUOTEs, quoted-pairs un-escaped): %s' % d['wit'][0], f, cons,
                 where=f.loc(cons) if isinstance(cons, ast.AST) else f.loc(), witness=d['wit'][:8],
                 runtime_witness='Forwarded: host="\\"quoted\\"" -> req.forwarded[0].host / req.forwarded_host lose the final quote and keep a dangling backslash')
    run.extra['c09_r13'] = {'samples': len(samples), 'agree': n_ok}


def check(run):
    run.assume('E5 assumptions: str/bytes/re/dict.get methods and in-range sequence subscripts are total; unresolved '
               'external callees do not raise unless tabled; UTF-8 encoding of request-derived text is total')
    run.assume('server-mandated environ/scope keys (frozen table SERVER_KEYS in sa/rules/c09_helpers.py, one reason each) are present; '
               'int(env[SERVER_PORT]) converts a server-produced value')
    run.assume('the header name passed to get_header()/get_header_as_*() is chosen by the application, not by the client')
    run.assume('R5 (parity of the WSGI and ASGI accessors) is decided by C06 R2 on the same accessor list; not re-evaluated here')
    run.rule('R1', r1_only_4xx, 'only 4xx HTTPError subclasses escape the typed header accessors (72 accessor instances examined)', floor=30)
    run.rule('R2', r2_memo, 'memo discipline of the _cached_* attributes', floor=50)
    run.rule('R3', r3_case_insensitive, 'get_header folds the case of the requested name before the table lookup', floor=4)
    run.rule('R4', r4_writer_reader, 'date / entity-tag writers agree with their readers', floor=6)
    run.rule('R6', r6_range, 'Range decision table (RFC 9110 14.1.2)', floor=10)
    from . import c06 as _c06

    run.rule('R8', _c06.r6_access_route_tail, 'access_route: both stacks append the connecting peer under the same condition (shared with C06 R6)', floor=1)
    run.rule('R9', r9_optional_accessors_guarded, 'Optional accessors are iterated only with a fallback or behind a test', floor=1)
    run.rule('R7', r7_forwarded_case, 'Forwarded: only parameter names and the scheme are case-folded', floor=2)
    run.rule('R10', r10_etag_wildcard, "entity-tag reader: the wildcard answer only for a whole value equal to '*'; no comma cutting of the header text", floor=2)
    run.rule('R11', r11_forwarded_element_present, 'Forwarded: every consumed pair (known or extension parameter) leaves its element created', floor=1)
    run.rule('R12', r12_route_node_verbatim, 'access_route: parse_host receives the Forwarded node value itself (no colon pre-splitting), both stacks', floor=2)
    run.rule('R13', r13_forwarded_quoted_values, 'Forwarded: quoted values lose exactly the two enclosing DQUOTEs, then quoted-pairs are un-escaped (sample evaluation against an independent reader)', floor=1)
    run.rule('R14', r14_default_port_follows_scheme, 'port / netloc: the default port is 443 exactly for https and wss (sample evaluation over the finite '
             'scheme domain x Host header form x server address, both stacks)', floor=2)
    run.rule('R15', _c06.r15_one_shot_scope_fields, "scope['client'] / scope['server'] are consumed at one memoised site per request: repeated access of "
             'remote_addr / access_route / port / netloc gives the same value, never ValueError (shared with C06 R15)', floor=2)
    run.rule('R16', r16_text_index_in_range, 'an integer index x[0] / x[-1] / x[k] into header text only where the text is known long enough '
             '(every function R1 examines; discharges "in-range subscripts are total")', floor=14)
    run.rule('R17', r17_content_length_sign, 'content_length refuses exactly the negative values (sign partition of the converted header, both stacks)', floor=4)
    run.rule('R18', r18_cookie_unquote_guard, 'the hoisted test in front of _unquote() holds for every DQUOTE-wrapped cookie value (length 2 upward)', floor=1)
    run.rule('R19', r19_url_composition, 'uri / forwarded_uri / relative_uri / prefix / forwarded_prefix: every stored value is the tabled ordered '
             'concatenation of components on every path (a sibling\'s memoised value stands for its components: no dependence on the read order)', floor=6)
    run.rule('R20', r20_forwarded_host_sources, 'forwarded_host: ordered sources Forwarded first hop -> X-Forwarded-Host -> netloc, both stacks '
             '(evaluated over 8 header-presence worlds; the own-authority fallback is netloc, never host)', floor=16)


# ---------------------------------------------------------------------------
# R14 default port / port elision follow the scheme (sample evaluation over the finite scheme domain)
# ---------------------------------------------------------------------------

_SECURE_SCHEMES = ('https', 'wss')          # RFC 9110 4.2.2 / RFC 6455 3: default port 443; every other scheme of the domain: 80
_ASGI_SCHEMES = (('http', 'http'), ('http', 'https'), ('websocket', 'ws'), ('websocket', 'wss'), ('http', None), ('websocket', None))
_WSGI_SCHEMES = ('http', 'https')           # PEP 3333: wsgi.url_scheme is "http" or "https"
_HOST_SAMPLES = (None, 'example.com', 'example.com:8080')
_SERVER_SAMPLES = (None, ('srv.local', 80), ('srv.local', 443), ('srv.local', 8000))


def _ref_port_netloc(scheme: str, host, server):
    """independent reading: Host header first (its port, else the scheme's default), else the server's (name, port) with
    the port elided from netloc iff it is the scheme's default"""
    dflt = 443 if scheme in _SECURE_SCHEMES else 80
    if host is not None:
        name, _, port = host.partition(':')
        return (int(port) if port else dflt), host
    name, port = server if server is not None else ('localhost', dflt)
    return port, (name if port == dflt else '%s:%d' % (name, port))


def _mentions_scheme(e) -> bool:
    for x in walk_self(e):
        if isinstance(x, ast.Attribute) and 'scheme' in x.attr:
            return True
        if isinstance(x, ast.Constant) and isinstance(x.value, str) and 'scheme' in x.value:
            return True
    return False


def _scheme_decider(p, cq: str, trace, fallback: Func):
    """(function, construct) that turned the scheme into the wrong default port: the last evaluated test that mentions the
    scheme; a test that merely reads a same-class property whose body reads the scheme is followed into that property."""
    last = None
    for t in trace:
        if t[0] == 'test' and _mentions_scheme(t[1]):
            last = t
    if last is None:
        return fallback, 'default port for the scheme'
    node, fq = last[1], last[3]
    f = p.funcs.get(fq, fallback)
    for x in walk_self(node):
        if isinstance(x, ast.Attribute) and isinstance(x.value, ast.Name) and x.value.id == 'self':
            m = p.lookup_method(cq, x.attr)
            if m is not None and m.is_property() and x.attr != 'scheme':
                rets = [r for r in walk_no_nested(m.node) if isinstance(r, ast.Return) and r.value is not None and _mentions_scheme(r.value)]
                if len(rets) == 1:
                    return m, rets[0].value
    return f, node


def r14_default_port_follows_scheme(run):
    """host/port/netloc and the uri/prefix composition built on them: when the Host header names no port the port is the
    scheme's default -- 443 exactly for 'https' and 'wss', 80 for 'http' and 'ws' -- and a server port is elided from
    netloc iff it is that default.  The scheme domain is finite (PEP 3333: http|https; ASGI: http|https|ws|wss, defaulted
    from the scope type when the server leaves it out), so the clause is decided by evaluating `scheme`, `port` and
    `netloc` of both request classes on sample requests (scheme x Host header form x server address) against an
    independent reading.  A predicate that tests part of the scheme text (`scheme.endswith('s')`, `scheme != 'http'`)
    shows up as a wrong row.
    W: websocket handshake over plain ws, `Host: example.com` -> req.port == 443; no Host, server ('srv.local', 80) ->
    req.netloc == 'srv.local:80', req.uri == 'ws://srv.local:80/'."""
    from .c09_helpers import CObj, ConcreteEval, CRaise
    p = run.project
    plans = []
    for typ, scheme in _ASGI_SCHEMES:
        for host in _HOST_SAMPLES:
            for server in _SERVER_SAMPLES:
                scope = {'type': typ}
                if scheme is not None:
                    scope['scheme'] = scheme
                if server is not None:
                    scope['server'] = server
                hdrs = {b'host': host.encode('latin1')} if host is not None else {}
                eff = scheme if scheme is not None else ('ws' if typ == 'websocket' else 'http')
                plans.append((ASGI_REQ, {'scope': scope, '_asgi_headers': hdrs, 'is_websocket': typ == 'websocket', '_asgi_server_cached': None},
                              eff, host, server, 'type=%s scheme=%r Host=%r server=%r' % (typ, scheme, host, server)))
    for scheme in _WSGI_SCHEMES:
        for host in _HOST_SAMPLES:
            for server in _SERVER_SAMPLES[1:]:
                env = {'wsgi.url_scheme': scheme, 'SERVER_NAME': server[0], 'SERVER_PORT': str(server[1])}
                if host is not None:
                    env['HTTP_HOST'] = host
                plans.append((WSGI_REQ, {'env': env}, scheme, host, server, 'wsgi.url_scheme=%r Host=%r SERVER_NAME/PORT=%r' % (scheme, host, server)))
    accs = {}
    for cq in (WSGI_REQ, ASGI_REQ):
        for a in ('scheme', 'port', 'netloc'):
            m = p.lookup_method(cq, a)
            if m is None or not m.is_property():
                raise AnchorError('%s.%s is not a property' % (cq, a))
            accs[(cq, a)] = m
            run.use(m)
    problems: Dict[tuple, dict] = {}
    n_rows = {WSGI_REQ: 0, ASGI_REQ: 0}
    for cq, attrs, scheme, host, server, text in plans:
        want_port, want_netloc = _ref_port_netloc(scheme, host, server)
        for acc, want in (('scheme', scheme), ('port', want_port), ('netloc', want_netloc)):
            ev = ConcreteEval(p)
            obj = CObj(cq, dict((k, (dict(v) if isinstance(v, dict) else v)) for k, v in attrs.items()))
            f = accs[(cq, acc)]
            try:
                got = ev.getattr(obj, acc, f, None)
            except CRaise as ex:
                raise UnknownIdiom('%s: evaluating the accessor on the sample request (%s) raised %s at %s' % (
                    f.qual, text, ex.cls, short(ex.node, 60) if ex.node is not None else '?'))
            n_rows[cq] += 1
            if got == want and type(got) is type(want):
                continue
            if acc == 'port' and isinstance(got, str) and got.isdigit() and int(got) == want:
                continue    # the right port in the wrong type: parse_host's result type is C10 R6's clause, not this one
            df, cons = _scheme_decider(p, cq, ev.trace, f) if acc != 'scheme' else (f, 'scheme of the request')
            d = problems.setdefault((df.qual, short(cons, 160) if isinstance(cons, ast.AST) else cons), {'f': df, 'cons': cons, 'wit': [], 'stacks': set()})
            d['stacks'].add(cq)
            d['wit'].append('%s: req.%s == %r, an independent reading gives %r' % (text, acc, got, want))
    for cq in (WSGI_REQ, ASGI_REQ):
        if not any(cq in d['stacks'] for d in problems.values()):
            run.ok('%s: scheme / port / netloc agree with an independent reading on %d sample rows (scheme domain %s x Host header absent / '
                   'without port / with port x server address): the default port is 443 exactly for https%s' % (
                       cq, n_rows[cq], '/'.join(_WSGI_SCHEMES) if cq == WSGI_REQ else 'http/https/ws/wss (given or defaulted)',
                       '' if cq == WSGI_REQ else ' and wss'), accs[(cq, 'port')].loc(), '%s: default port by scheme' % cq)
    for key in sorted(problems):
        d = problems[key]
        cons = d['cons']
        run.fail('the default port / the elision of the port in netloc does not follow the scheme (443 exactly for https and wss, 80 for http '
                 'and ws): %s' % d['wit'][0], d['f'], cons, where=d['f'].loc(cons) if isinstance(cons, ast.AST) else d['f'].loc(),
                 witness=d['wit'][:10] + (['... %d rows in all' % len(d['wit'])] if len(d['wit']) > 10 else []),
                 runtime_witness="ASGI websocket scope with scheme 'ws', Host: example.com -> req.port == 443; no Host header and server "
                                 "('srv.local', 80) -> req.netloc == 'srv.local:80', req.prefix == 'ws://srv.local:80'")
    run.extra['c09_r14'] = {'rows': dict(n_rows), 'disagreeing_constructs': len(problems)}


# ---------------------------------------------------------------------------
# R16 an integer index into header text is taken only where the text is known long enough
# ---------------------------------------------------------------------------
# R1's escape analysis assumes "in-range sequence subscripts are total".  This rule discharges that assumption for the
# functions R1 examines: `x[0]`, `x[-1]`, `x[k]` on a str / bytes raises IndexError when the text is too short (slices
# never raise), and header text is client-chosen: `If-None-Match: W/` leaves an EMPTY opaque-tag behind.

# (function, construct) -> reason: integer indices into a sequence that is NOT header text and whose non-emptiness is an
# invariant of its producer (one line each; these are outside the clause, listed so that the sweep is complete).
# `<local>` stands for a plain local variable (its name is not an anchor); the table is never consulted for text.
_INDEX_TABLED = {
    ('falcon.asgi.request.Request.remote_addr', 'self.access_route[-1]'):
        'access_route ends with the connecting peer address (scope[client] / 127.0.0.1; tail decided by R8 = C06 R6); it is empty only when the SERVER '
        'reports an empty client host -- server-controlled, not header text',
    ('falcon.request.Request.cookies', '<local>[0]'):
        'every value list of _cookies is created together with its first element (`cookies[name] = [value]` in _parse_cookie_header)',
    ('falcon.util.mediatypes.quality', '<local>[-1]'):
        'match_score answers a fixed-shape 5-tuple (or the _NOT_MATCHING constant of the same shape)',
}
_ETAG_READERS = ('falcon.util.structures.ETag.loads', 'falcon.request_helpers._parse_etags')


def _r1_closure(p) -> List[Func]:
    """the functions R1's escape analysis walks for the C09 accessors of both stacks"""
    E = SiteEscape(p)
    for cq in (WSGI_REQ, ASGI_REQ):
        c = p.cls(cq)
        mem = effective_members(p, cq)
        for name in C09_ACCESSORS:
            m = mem.get(name)
            if m is None or m.func is None:
                raise AnchorError('accessor %s.%s not found' % (cq, name))
            E.summary(m.func, c)
    quals = sorted({k[0] for k in E.memo})
    return [p.funcs[q] for q in quals if q in p.funcs]


def _match_group_width(p, f: Func, rd, nid: int, d) -> int:
    """least length of a text bound from a successful regex match: `a, b = <m>.groups()` / `x = <m>.group(i)` where <m> is
    bound once to `<module-level pattern>.match/fullmatch/search(...)` -- the group's least width, read off the pattern."""
    from .c09_helpers import ConcreteEval, regex_group_min_width
    call, group = None, None
    src = d.src
    if d.how == 'unpack' and isinstance(src, ast.Name):
        # `groups = <m>.groups()` ... `name, value = groups`: the one binding of the local that reaches the unpacking
        gd = rd.at(nid, src.id)
        if len(gd) == 1 and gd[0].how == 'assign' and gd[0].value is not None:
            src = gd[0].value
    if d.how == 'unpack' and isinstance(src, ast.Call) and isinstance(src.func, ast.Attribute) and src.func.attr == 'groups' and not src.args:
        call, group = src, (d.index or 0) + 1
    elif d.how == 'assign' and isinstance(d.value, ast.Call) and isinstance(d.value.func, ast.Attribute) and d.value.func.attr == 'group' \
            and len(d.value.args) == 1 and isinstance(d.value.args[0], ast.Constant) and isinstance(d.value.args[0].value, int):
        call, group = d.value, d.value.args[0].value
    if call is None or not group or not isinstance(call.func.value, ast.Name):
        return 0
    mdefs = rd.at(nid, call.func.value.id)
    widths = []
    from .c09_helpers import callable_alias
    for md in mdefs:
        v = md.value
        fexpr = v.func if isinstance(v, ast.Call) else None
        if isinstance(fexpr, ast.Name):
            fexpr = callable_alias(f, fexpr)      # `match_pair = _PAIR_RE.match` bound once ... `match_pair(text, pos)`
        if not (md.how == 'assign' and isinstance(fexpr, ast.Attribute) and fexpr.attr in ('match', 'fullmatch', 'search')):
            return 0
        q = p.resolve_expr(f.module, fexpr.value, f)
        if not q:
            return 0
        try:
            pat = ConcreteEval(p).module_const(q, f, v)
        except UnknownIdiom:
            return 0
        if not isinstance(pat, re.Pattern):
            return 0
        w = regex_group_min_width(pat.pattern, group)
        if w is None:
            return 0
        widths.append(w)
    return min(widths) if widths else 0


def r16_text_index_in_range(run):
    """In every function R1 examines (the closure of the typed header accessors of both stacks, in particular the
    entity-tag reader ETag.loads / _parse_etags), an INTEGER-INDEX subscript `x[0]`, `x[-1]`, `x[k]` on text is taken only
    where the text is known long enough: a dominating branch outcome (truthiness, a len() comparison, startswith /
    endswith / equality / containment of a non-empty constant -- on the same, not re-bound, value), an earlier operand
    of the same and/or, a successful regex match whose group cannot be empty, or for `x[i]` a loop guard `0 <= i < len(x)`.
    Otherwise the read can raise IndexError: neither a lenient reading nor a 4xx.  Slices never raise.
    W: `If-None-Match: W/` -> ETag.loads strips the weak prefix, `value[0]` on '' -> IndexError (500) on both stacks."""
    from .c09_helpers import (ReachingDefs, SeqKinds, dominating_outcomes, index_in_range, node_of, rebound_between, seq_min_len)
    p = run.project
    funcs = _r1_closure(p)
    have = {f.qual for f in funcs}
    for q in _ETAG_READERS:
        if q not in have:
            raise AnchorError('%s is not reached from the conditional-header accessors any more (entity-tag reader moved?)' % q)
    n_text = n_other = 0
    tabled_used = set()
    not_examined: List[str] = []
    per_reader = {q: 0 for q in _ETAG_READERS}
    for f in funcs:
        skip = set()
        for n in ast.walk(f.node):
            for fld in ('annotation', 'returns'):
                a = getattr(n, fld, None)
                if isinstance(a, ast.AST):
                    skip |= {id(x) for x in ast.walk(a)}
        subs = [n for n in walk_no_nested(f.node) if isinstance(n, ast.Subscript) and isinstance(n.ctx, ast.Load)
                and not isinstance(n.slice, ast.Slice) and id(n) not in skip]
        if not subs:
            continue
        kinds = SeqKinds(p, f)
        cfg = rd = parent = None
        for sub in subs:
            k = _int_index(sub.slice)
            var = sub.slice.id if isinstance(sub.slice, ast.Name) else None
            bk = kinds.kind(sub.value)
            if bk == 'map' or (isinstance(sub.slice, ast.Constant) and not isinstance(sub.slice.value, int)):
                continue                                  # a key lookup: KeyError territory, R1's own business
            if k is None and var is None:
                if bk == 'text':
                    raise UnknownIdiom('%s: header text is indexed with the computed position %s; the rule reads constant and plain-variable indices only'
                                       % (f.qual, short(sub, 60)))
                continue
            if k is None and bk not in ('text', 'seq'):
                continue                                  # d[name]: not known to be a sequence
            if cfg is None:
                cfg = cfg_of(f, p)
                run.use_cfg(cfg)
                rd = ReachingDefs(cfg)
                parent = enclosing_map(f.node)
            base = ast.unparse(sub.value)
            need = (k + 1 if k >= 0 else -k) if k is not None else 1
            nid = node_of(cfg, sub)
            base_names = {x.id for x in walk_self(sub.value) if isinstance(x, ast.Name)} - {'self'}
            attr_texts = {ast.unparse(x) for x in walk_self(sub.value) if isinstance(x, ast.Attribute)}
            if var is not None:
                base_names_v = base_names | {var}
            # locals that hold len(base) here: the one binding that reaches is `n = len(<base>)`, and the base is not re-bound since
            len_aliases = set()
            if isinstance(sub.value, ast.Name):
                here = {id(d) for d in rd.at(nid, sub.value.id)}
                for nm, vals in assignments(f).items():
                    if not any(v is not None and isinstance(v, ast.Call) and isinstance(v.func, ast.Name) and v.func.id == 'len' and len(v.args) == 1
                               and ast.unparse(v.args[0]) == base for v in vals):
                        continue
                    ds = rd.at(nid, nm)
                    if len(ds) == 1 and ds[0].how == 'assign' and isinstance(ds[0].value, ast.Call) and isinstance(ds[0].value.func, ast.Name) \
                            and ds[0].value.func.id == 'len' and len(ds[0].value.args) == 1 and ast.unparse(ds[0].value.args[0]) == base:
                        there = {id(d) for d in rd.at(node_of(cfg, ds[0].stmt), sub.value.id)}
                        if there == here:
                            len_aliases.add(nm)
            got = 0
            lo = hi = False
            why = []
            # (1) what the bindings say
            if not isinstance(sub.value, ast.Name):
                got = _producer_len(p, f, sub.value)
                if got:
                    why.append('%s always answers at least %d item(s)' % (short(sub.value, 60), got))
            else:
                ds = rd.at(nid, sub.value.id)
                ws = []
                for d in ds:
                    w = 0
                    if d.how == 'assign' and isinstance(d.value, ast.Constant) and isinstance(d.value.value, (str, bytes)):
                        w = len(d.value.value)
                    elif d.how == 'assign' and d.value is not None and _producer_len(p, f, d.value):
                        w = _producer_len(p, f, d.value)
                    elif d.how in ('assign', 'unpack'):
                        w = _match_group_width(p, f, rd, node_of(cfg, d.stmt) if isinstance(d.stmt, ast.stmt) else nid, d)
                    elif d.how == 'for' and isinstance(d.src, ast.Call) and isinstance(d.src.func, ast.Attribute) and d.src.func.attr == 'split' \
                            and not d.src.args and not d.src.keywords:
                        w = 1                                   # str.split() without separator never yields an empty piece
                    ws.append(w)
                if ws and min(ws) > 0:
                    got = min(ws)
                    why.append('every binding that reaches here is at least %d long (constant / non-empty regex group / split, partition, fixed-shape tuple)' % got)
            # (2) dominating branch outcomes that are still fresh
            for tid, lab, truth in dominating_outcomes(cfg, nid):
                test = cfg.node(tid).ast
                w = seq_min_len(test, truth, base, len_aliases)
                if w > got and not rebound_between(cfg, tid, lab, nid, base_names | len_aliases, attr_texts):
                    got = w
                    why.append('%s is %s' % (short(test, 70), truth))
                if var is not None:
                    l_, h_ = index_in_range(test, truth, var, base, len_aliases)
                    if (l_ or h_) and not rebound_between(cfg, tid, lab, nid, base_names_v | len_aliases, attr_texts):
                        lo, hi = lo or l_, hi or h_
                        why.append('%s is %s' % (short(test, 70), truth))
            # (3) earlier operands of the same and/or, the test of an enclosing conditional expression / comprehension filter
            child = sub
            for anc in ancestors_of(sub, parent):
                if isinstance(anc, ast.stmt):
                    break
                facts = []
                if isinstance(anc, ast.BoolOp):
                    i = next((j for j, v in enumerate(anc.values) if v is child), None)
                    if i:
                        facts = [(v, isinstance(anc.op, ast.And)) for v in anc.values[:i]]
                elif isinstance(anc, ast.IfExp) and child is not anc.test:
                    facts = [(anc.test, child is anc.body)]
                elif isinstance(anc, (ast.ListComp, ast.SetComp, ast.GeneratorExp, ast.DictComp)) and not any(child is g for g in anc.generators):
                    facts = [(c, True) for g in anc.generators for c in g.ifs]
                for t_, tr in facts:
                    w = seq_min_len(t_, tr, base, len_aliases)
                    if w > got:
                        got = w
                        why.append('%s is %s in the same expression' % (short(t_, 70), tr))
                    if var is not None:
                        l_, h_ = index_in_range(t_, tr, var, base, len_aliases)
                        lo, hi = lo or l_, hi or h_
                child = anc
            proved = (got >= need) if var is None else (lo and hi)
            what = ('%s: the integer index %s is taken only where the %s is known to be long enough (needs %s)' % (
                f.qual, short(sub, 50), 'header text' if bk == 'text' else 'sequence',
                ('len >= %d' % need) if var is None else '0 <= %s < len(%s)' % (var, base)))
            key = (f.qual, ast.unparse(sub))
            if key not in _INDEX_TABLED and isinstance(sub.value, ast.Name):
                # a local bound once to a plain attribute chain stands for that chain (`route = self.access_route; route[-1]`)
                vals = assignments(f).get(sub.value.id, [])
                if len(vals) == 1 and isinstance(vals[0], ast.Attribute) and sub.value.id not in f.params():
                    key = (f.qual, '%s[%s]' % (ast.unparse(vals[0]), ast.unparse(sub.slice)))
                if key not in _INDEX_TABLED and sub.value.id not in f.params():
                    key = (f.qual, '<local>[%s]' % ast.unparse(sub.slice))
            if f.qual in per_reader:
                per_reader[f.qual] += 1
            if bk == 'text':
                n_text += 1
            else:
                n_other += 1
            if proved:
                run.ok(what + ' -- ' + '; '.join(dict.fromkeys(why)), f.loc(sub), sub)
                continue
            if key in _INDEX_TABLED and bk != 'text':
                tabled_used.add(key)
                run.ok(what + ' -- tabled: ' + _INDEX_TABLED[key], f.loc(sub), sub)
                continue
            if bk == 'seq':
                # a list / tuple, not text: outside this clause (recorded in the evidence, not an obligation)
                not_examined.append('%s :: %s' % (f.qual, ast.unparse(sub)))
                n_other -= 1
                continue
            if bk != 'text':
                raise UnknownIdiom('%s: %s indexes something that is not known to be header text or a list, is not proved non-empty and is not in '
                                   'the table of producer invariants (_INDEX_TABLED)' % (f.qual, short(sub, 60)))
            if var is None and isinstance(sub.value, ast.Name) and f.name.startswith('_') and any(d.how == 'param' for d in rd.at(nid, sub.value.id)) \
                    and f.qual not in _ETAG_READERS:
                raise UnknownIdiom('%s: %s indexes a parameter of a private helper; what its callers guarantee is not read' % (f.qual, short(sub, 60)))
            run.fail('an integer index into header text that may be too short (nothing on the way here says the text has %s): IndexError '
                     'escapes the header accessors -- neither a lenient reading nor a 4xx' % (
                         ('%d character(s)' % need) if var is None else 'a character at that position'),
                     f, sub, where=f.loc(sub), witness=['known here: len(%s) >= %d' % (base, got)] + why,
                     runtime_witness="If-None-Match: W/  (the whole value is the weak prefix): the opaque-tag left after stripping it is empty -> "
                                     "req.if_none_match raises IndexError (a 500) on WSGI and ASGI")
    run.ok('entity-tag reader: %s' % '; '.join('%s takes %d integer index(es) (slices never raise)' % (q.rsplit('.', 2)[-2] + '.' + q.rsplit('.', 1)[-1], n)
                                             for q, n in sorted(per_reader.items())), p.func(_ETAG_READERS[0]).loc(), 'entity-tag reader: integer indices')
    run.extra['c09_r16'] = {'functions_swept': len(funcs), 'text_indices': n_text, 'other_sequence_indices': n_other, 'tabled': len(tabled_used),
                            'list_indices_neither_proved_nor_tabled (outside the clause)': not_examined,
                            'tabled_not_met': sorted('%s :: %s' % k for k in set(_INDEX_TABLED) - tabled_used)}


def _producer_len(p, f: Func, e) -> int:
    """least number of items of what an expression produces, by construction: str.split / rsplit with a separator (>= 1 piece),
    partition / rpartition (3), a tuple / list display, a package function whose return annotation is a fixed-shape Tuple[...]"""
    if isinstance(e, (ast.Tuple, ast.List)) and not any(isinstance(x, ast.Starred) for x in e.elts):
        return len(e.elts)
    if isinstance(e, ast.Call) and isinstance(e.func, ast.Attribute):
        if e.func.attr in ('split', 'rsplit') and (e.args or any(k.arg == 'sep' for k in e.keywords)) \
                and not (e.args and isinstance(e.args[0], ast.Constant) and e.args[0].value is None):
            return 1
        if e.func.attr in ('partition', 'rpartition') and len(e.args) == 1:
            return 3
    if isinstance(e, ast.Call):
        t = p.callee(f, e)
        if isinstance(t, Func) and t.node.returns is not None and not t.is_async:
            a = t.node.returns
            if isinstance(a, ast.Subscript) and ast.unparse(a.value).replace('typing.', '') in ('Tuple', 'tuple'):
                elts = a.slice.elts if isinstance(a.slice, ast.Tuple) else [a.slice]
                if not any(isinstance(x, ast.Constant) and x.value is Ellipsis for x in elts):
                    return len(elts)
    return 0


def _int_index(s) -> Optional[int]:
    if isinstance(s, ast.Constant) and isinstance(s.value, int) and not isinstance(s.value, bool):
        return s.value
    if isinstance(s, ast.UnaryOp) and isinstance(s.op, ast.USub) and isinstance(s.operand, ast.Constant) \
            and isinstance(s.operand.value, int) and not isinstance(s.operand.value, bool):
        return -s.operand.value
    return None


# ---------------------------------------------------------------------------
# R17 Content-Length: the sign partition of the converted value
# ---------------------------------------------------------------------------

def _int_const(e) -> Optional[int]:
    if isinstance(e, ast.Constant) and isinstance(e.value, int) and not isinstance(e.value, bool):
        return e.value
    if isinstance(e, ast.UnaryOp) and isinstance(e.op, ast.USub) and isinstance(e.operand, ast.Constant) \
            and isinstance(e.operand.value, int) and not isinstance(e.operand.value, bool):
        return -e.operand.value
    return None


_CMP = {ast.Lt: lambda a, b: a < b, ast.LtE: lambda a, b: a <= b, ast.Gt: lambda a, b: a > b, ast.GtE: lambda a, b: a >= b,
        ast.Eq: lambda a, b: a == b, ast.NotEq: lambda a, b: a != b}


def _int_guard_consts(e, is_var) -> List[int]:
    return [c for x in walk_self(e) for c in [_int_const(x)] if c is not None]


def _int_guard_eval(e, is_var, n: int, where: str):
    """Truth of a guard over the converted integer for the value n; None when the guard does not talk about it."""
    if not any(is_var(x) for x in walk_self(e)):
        return None
    if isinstance(e, ast.UnaryOp) and isinstance(e.op, ast.Not):
        v = _int_guard_eval(e.operand, is_var, n, where)
        return None if v is None else (not v)
    if isinstance(e, ast.BoolOp):
        vals = [_int_guard_eval(v, is_var, n, where) for v in e.values]
        if isinstance(e.op, ast.And):
            return False if any(v is False for v in vals) else None if any(v is None for v in vals) else True
        return True if any(v is True for v in vals) else None if any(v is None for v in vals) else False
    if is_var(e):
        return n != 0
    if isinstance(e, ast.Compare):
        terms = [e.left] + list(e.comparators)
        vals = []
        for t in terms:
            if is_var(t):
                vals.append(n)
            else:
                c = _int_const(t)
                if c is None:
                    raise UnknownIdiom('%s: the converted value is compared with something that is not an integer constant: %s' % (where, short(e, 80)))
                vals.append(c)
        for op, a, b in zip(e.ops, vals, vals[1:]):
            fn = _CMP.get(type(op))
            if fn is None:
                raise UnknownIdiom('%s: comparison %s of the converted value' % (where, short(e, 80)))
            if not fn(a, b):
                return False
        return True
    raise UnknownIdiom('%s: guard %s over the converted value has a shape this rule cannot read' % (where, short(e, 80)))


def _inline_value_flags(f: Func, test, is_var):
    """A guard spelled through a local flag (`quoted = len(value) > 2 and ...; if quoted:`) is read through the flag's
    single definition; a flag bound more than once is an unknown idiom."""
    import copy
    binds = assignments(f)
    flagged = {}
    for nm, vals in binds.items():
        about = [v for v in vals if v is not None and any(is_var(x) for x in walk_self(v))]
        if about and not is_var(ast.Name(nm, ast.Load())):
            if len(vals) != 1:
                if any(isinstance(x, ast.Name) and x.id == nm for x in walk_self(test)):
                    raise UnknownIdiom('%s: the flag %s a guard reads is bound more than once' % (f.qual, nm))
                continue
            if isinstance(vals[0], (ast.Compare, ast.BoolOp)) or (isinstance(vals[0], ast.UnaryOp) and isinstance(vals[0].op, ast.Not)):
                flagged[nm] = vals[0]

    class _T(ast.NodeTransformer):
        def visit_Name(self, n):
            if isinstance(n.ctx, ast.Load) and n.id in flagged:
                return copy.deepcopy(flagged[n.id])
            return n
    if not any(isinstance(x, ast.Name) and x.id in flagged for x in walk_self(test)):
        return test
    return ast.fix_missing_locations(_T().visit(copy.deepcopy(test)))


def r17_content_length_sign(run):
    """`Content-Length = 1*DIGIT` (RFC 9110 8.6): every non-negative integer is a valid value, in particular 0 (each empty
    POST/PUT); int() also accepts '-5', so exactly the negative values must be refused.  In the content_length accessor
    of BOTH stacks the guards between `v = int(<header>)` and `return v` are evaluated on the sign partition of v -- the
    cells are cut at every constant the guards compare v with, so each cell is decided exactly: a cell below 0 must
    reach a raise, a cell at or above 0 must not.  (The same clause on both stacks is the parity C06 R2 asks for.)
    W: `Content-Length: 0` answers 400 on WSGI (`v < 1` / `v <= 0`) while ASGI reads 0."""
    from .c09_helpers import ReachingDefs, branch_facts
    p = run.project
    n_ob = 0
    for cq in (WSGI_REQ, ASGI_REQ):
        m = effective_members(p, cq).get('content_length')
        if m is None or m.func is None:
            raise AnchorError('%s.content_length not found' % cq)
        f = m.func
        cfg = cfg_of(f, p)
        run.use_cfg(cfg)
        rd = ReachingDefs(cfg)
        conv = [d for d in rd.defs if d.value is not None and isinstance(d.value, ast.Call) and isinstance(d.value.func, ast.Name)
                and d.value.func.id == 'int' and d.how == 'assign']
        if len(conv) != 1:
            raise UnknownIdiom('%s: expected one `v = int(...)` conversion, found %d' % (f.qual, len(conv)))
        var = conv[0].name

        def is_var(x, var=var):
            return isinstance(x, ast.Name) and x.id == var

        if len([d for d in rd.defs if d.name == var]) != 1:
            raise UnknownIdiom('%s: %s is bound more than once' % (f.qual, var))
        rets = [n for n in cfg.live_nodes() if n.kind == 'stmt' and isinstance(n.ast, ast.Return) and n.ast.value is not None
                and is_var(n.ast.value) and rd.at(n.id, var)]
        if not rets:
            raise UnknownIdiom('%s: the converted value %s is not returned by name' % (f.qual, var))
        raises = [n for n in cfg.live_nodes() if n.kind == 'stmt' and isinstance(n.ast, ast.Raise) and rd.at(n.id, var)]
        guards = []   # (raise node, [(test, outcome) that talk about var], has other conditions)
        consts = {0}
        for rn in raises:
            facts = [(_inline_value_flags(f, t, is_var), o) for (t, o) in branch_facts(cfg, rn.id)]
            mine = [(t, o) for (t, o) in facts if any(is_var(x) for x in walk_self(t))]
            if not mine:
                continue
            for t, _o in mine:
                consts.update(_int_guard_consts(t, is_var))
            guards.append((rn, mine))
        if not guards:
            raise UnknownIdiom('%s: no guard on the sign of %s between the conversion and the return (negative values are screened in a way '
                               'this rule cannot read)' % (f.qual, var))
        # also: a return of the value may itself sit under a guard
        for r in rets:
            for t, _o in branch_facts(cfg, r.id):
                if any(is_var(x) for x in walk_self(t)):
                    consts.update(_int_guard_consts(t, is_var))
        cuts = sorted(consts)
        reps = sorted({c + d for c in cuts for d in (-1, 0, 1)})   # one representative per cell of the partition cut at every constant

        def raised(n):
            hit = []
            for rn, mine in guards:
                vals = [_int_guard_eval(t, is_var, n, f.qual) for (t, _o) in mine]
                if any(v is None for v in vals):
                    raise UnknownIdiom('%s: guard of %s mixes the converted value with other conditions' % (f.qual, short(rn.ast, 60)))
                if all(v == o for v, (_t, o) in zip(vals, mine)):
                    hit.append(rn)
            return hit

        bad_nonneg = [(n, raised(n)) for n in reps if n >= 0 and raised(n)]
        bad_neg = [n for n in reps if n < 0 and not raised(n)]
        g0 = guards[0][0]
        n_ob += 1
        culprit = bad_nonneg[0][1][0] if bad_nonneg else g0
        tests = ' ; '.join('%s is %s' % (short(t, 60), o) for (t, o) in [x for g_ in guards if g_[0] is culprit for x in g_[1]])
        run.check(not bad_nonneg, '%s.content_length: no valid value (0 and every positive integer; cells cut at %s) is refused'
                  % ('WSGI' if cq == WSGI_REQ else 'ASGI', cuts), f, 'raise when %s' % tests, where='%s:%s' % (f.file, culprit.lineno),
                  witness=['%s = %d -> %s' % (var, n, short(h[0].ast, 80)) for n, h in bad_nonneg[:4]] or None,
                  runtime_witness='Content-Length: 0 (every empty POST/PUT) answers 400 Invalid header value')
        n_ob += 1
        run.check(not bad_neg, '%s.content_length: every negative value int() lets through is refused'
                  % ('WSGI' if cq == WSGI_REQ else 'ASGI'), f, 'negative %s: raise when %s' % (var, tests), where='%s:%s' % (f.file, g0.lineno),
                  witness=['%s = %d is returned' % (var, n) for n in bad_neg[:4]] or None,
                  runtime_witness='Content-Length: -1 is returned as -1 (a negative length reaches stream bounding)')
    return n_ob


# ---------------------------------------------------------------------------
# R18 Cookie: the hoisted unquoting guard covers every quoted value
# ---------------------------------------------------------------------------

COOKIE_PARSER = 'falcon.request_helpers._parse_cookie_header'
COOKIE_UNQUOTE = 'http.cookies._unquote'
# quoted cookie-value = DQUOTE *octet DQUOTE (RFC 6265 4.1.1; http.cookies._unquote strips the pair from any text of length >= 2
# that starts and ends with DQUOTE).  Every length from 2 upward is judged: `n=""` (length 2, nothing between the quotes) reads ''
# like the stdlib does (the tree's own deviation on that cell was fixed); the table stays for a future cell with its one reason.
_COOKIE_UNJUDGED_LENGTHS: Dict[int, str] = {}


def r18_cookie_unquote_guard(run):
    """The test in front of `_unquote(value)` in _parse_cookie_header only saves a call ("hoisted from within
    _unquote()"): it must hold for every value _unquote would change, i.e. for every length >= 2 with a DQUOTE first and
    last.  The dominating tests about the value are evaluated on the cells length {0, 1, 2, 3, ... up to two past the
    largest constant} x first character is DQUOTE x last character is DQUOTE (length 1: one character, both or neither).
    W: `Cookie: n="x"` (what set_cookie('n', '=') produces, echoed back) is read as the three characters `"="`;
    `Cookie: n=""` (length 2) is read as the two quote characters instead of ''."""
    from .c09_helpers import ReachingDefs, branch_facts, node_of, resolves_to
    p = run.project
    f = p.func(COOKIE_PARSER)
    cfg = cfg_of(f, p)
    run.use_cfg(cfg)
    calls = [c for c in walk_no_nested(f.node) if isinstance(c, ast.Call) and resolves_to(p, f, c, COOKIE_UNQUOTE)]
    if not calls:
        raise AnchorError('%s does not call %s any more' % (COOKIE_PARSER, COOKIE_UNQUOTE))
    n_ob = 0
    for call in calls:
        if len(call.args) != 1 or not isinstance(call.args[0], ast.Name):
            raise UnknownIdiom('%s: %s' % (COOKIE_PARSER, short(call, 80)))
        var = call.args[0].id
        nid = node_of(cfg, call)

        def is_var(x, var=var):
            return isinstance(x, ast.Name) and x.id == var

        raw_facts = [(t, _inline_value_flags(f, t, is_var), o) for (t, o) in branch_facts(cfg, nid)]
        origin = {id(t2): t for (t, t2, _o) in raw_facts}
        facts = [(t2, o) for (_t, t2, o) in raw_facts if any(is_var(x) for x in walk_self(t2))]
        # the tests must be about the value that is unquoted: no rebinding of it between a test and the call
        rd = ReachingDefs(cfg)
        here = {id(d) for d in rd.at(nid, var)}
        for t, _o in facts:
            tn = node_of(cfg, origin[id(t)])
            if {id(d) for d in rd.at(tn, var)} != here:
                raise UnknownIdiom('%s: %s is rebound between the test %s and the unquoting' % (COOKIE_PARSER, var, short(t, 60)))
        consts = [c for (t, _o) in facts for x in walk_self(t) for c in [_int_const(x)] if c is not None and c >= 0]
        top = max([3] + consts) + 2

        def ev(e, ln, first, last):
            """None = not about the value."""
            if not any(is_var(x) for x in walk_self(e)):
                return None
            if isinstance(e, ast.UnaryOp) and isinstance(e.op, ast.Not):
                v = ev(e.operand, ln, first, last)
                return None if v is None else (not v)
            if isinstance(e, ast.BoolOp):
                vals = [ev(v, ln, first, last) for v in e.values]
                if isinstance(e.op, ast.And):
                    return False if any(v is False for v in vals) else None if any(v is None for v in vals) else True
                return True if any(v is True for v in vals) else None if any(v is None for v in vals) else False
            if is_var(e):
                return ln > 0
            if isinstance(e, ast.Call) and isinstance(e.func, ast.Attribute) and is_var(e.func.value) and e.func.attr in ('startswith', 'endswith') \
                    and len(e.args) == 1 and isinstance(e.args[0], ast.Constant) and e.args[0].value == '"':
                return ln > 0 and (first if e.func.attr == 'startswith' else last)
            if isinstance(e, ast.Compare) and len(e.ops) == 1:
                a, b = e.left, e.comparators[0]
                op = e.ops[0]
                # len(value) <op> constant (either side)
                for x, y, flip in ((a, b, False), (b, a, True)):
                    if isinstance(x, ast.Call) and isinstance(x.func, ast.Name) and x.func.id == 'len' and len(x.args) == 1 and is_var(x.args[0]):
                        c = _int_const(y)
                        fn = _CMP.get(type(op))
                        if c is None or fn is None:
                            raise UnknownIdiom('%s: length test %s' % (COOKIE_PARSER, short(e, 60)))
                        return fn(c, ln) if flip else fn(ln, c)
                # value[0] / value[-1] / value[:1] / value[-1:] ==/!= '"'
                for x, y in ((a, b), (b, a)):
                    if isinstance(x, ast.Subscript) and is_var(x.value) and isinstance(y, ast.Constant) and y.value == '"' \
                            and isinstance(op, (ast.Eq, ast.NotEq)):
                        sl = x.slice
                        pos = None
                        k = _int_const(sl)
                        if k in (0, -1):
                            pos = 'first' if k == 0 else 'last'
                            if ln == 0:
                                raise _IndexOnEmpty()
                        elif isinstance(sl, ast.Slice) and sl.step is None:
                            lo, hi = (_int_const(sl.lower) if sl.lower is not None else None), (_int_const(sl.upper) if sl.upper is not None else None)
                            if (lo, hi) in ((None, 1), (0, 1)):
                                pos = 'first'
                            elif (lo, hi) == (-1, None):
                                pos = 'last'
                            if pos and ln == 0:
                                return isinstance(op, ast.NotEq)
                        if pos is None:
                            raise UnknownIdiom('%s: character test %s' % (COOKIE_PARSER, short(e, 60)))
                        is_q = first if pos == 'first' else last
                        return is_q if isinstance(op, ast.Eq) else (not is_q)
            raise UnknownIdiom('%s: test %s about the cookie value has a shape this rule cannot read' % (COOKIE_PARSER, short(e, 80)))

        missed = []
        unjudged = []
        for ln in range(2, top + 1):
            ok = True
            for t, o in facts:
                try:
                    v = _ev_and_order(ev, t, ln)
                except _IndexOnEmpty:
                    v = None
                if v is None:
                    raise UnknownIdiom('%s: test %s mixes the cookie value with other conditions' % (COOKIE_PARSER, short(t, 60)))
                if v != o:
                    ok = False
            if not ok:
                (unjudged if ln in _COOKIE_UNJUDGED_LENGTHS else missed).append(ln)
        n_ob += 1
        guard = ' and '.join(('%s' if o else 'not (%s)') % short(t, 80) for (t, o) in facts) or '<unconditional>'
        run.check(not missed, 'a DQUOTE-wrapped cookie value of every length from 2 to %d (two past the largest constant of the guard) reaches %s: '
                  'the hoisted guard is not stricter than the callee\'s own' % (top, COOKIE_UNQUOTE), f, guard, where=f.loc(call),
                  witness=['length %d (%d character(s) between the quotes): kept with its quotes' % (ln, ln - 2) for ln in missed] or None,
                  runtime_witness='Cookie: n="x" -> req.cookies[\'n\'] == \'"x"\'; set_cookie(\'n\', \'=\') echoed back reads \'"="\'')
        for ln in unjudged:
            run.sample({'cookie value cell not judged': 'length %d: %s' % (ln, _COOKIE_UNJUDGED_LENGTHS[ln])})
    return n_ob


class _IndexOnEmpty(Exception):
    pass


def _ev_and_order(ev, t, ln):
    """a quoted value of length ln >= 2: first and last characters are DQUOTE"""
    return ev(t, ln, True, True)


# ---------------------------------------------------------------------------
# R19 URL composition table: every composed accessor is the ordered concatenation of its tabled components
# ---------------------------------------------------------------------------

# leaves of the composition (accessors that are NOT themselves concatenations of other leaves of this table)
_URL_LEAVES = ('scheme', 'netloc', 'host', 'root_path', 'path', 'query_string', 'forwarded_scheme', 'forwarded_host')
_Q = 'query_string'
# composed accessor -> (ordered components when the query string is non-empty, reason).  When the query string is empty the
# trailing `'?' + query_string` is absent (PEP 3333 "URL Reconstruction": `if QUERY_STRING: url += '?' + QUERY_STRING`).
_REL = ('root_path', 'path', "'?'", _Q)
_URL_TABLE = {
    'relative_uri': (_REL, 'docstring: path and query string portion, omitting scheme and host; PEP 3333: SCRIPT_NAME + PATH_INFO [+ ? + QUERY_STRING]'),
    'uri': (('scheme', "'://'", 'netloc') + _REL, 'PEP 3333 URL reconstruction: scheme://host[:port] + SCRIPT_NAME + PATH_INFO [+ ? + QUERY_STRING]'),
    'forwarded_uri': (('forwarded_scheme', "'://'", 'forwarded_host') + _REL, 'docstring: the original URI rebuilt from forwarded_scheme and forwarded_host'),
    'prefix': (('scheme', "'://'", 'netloc', 'root_path'), 'docstring: scheme, host and app root_path'),
    'forwarded_prefix': (('forwarded_scheme', "'://'", 'forwarded_host', 'root_path'), 'docstring: prefix of the original URI from forwarded_scheme and forwarded_host'),
}


class _SlotUnset(Exception):
    def __init__(self, node):
        Exception.__init__(self)
        self.node = node


def _url_expected(name: str, has_query: bool) -> List[str]:
    comp = list(_URL_TABLE[name][0])
    if not has_query and comp[-2:] == ["'?'", _Q]:
        comp = comp[:-2]
    return comp


def _url_norm(tokens: List[str]) -> List[str]:
    """adjacent string constants merged, empty constants dropped"""
    out: List[str] = []
    for t in tokens:
        if t.startswith("'"):
            if t == "''":
                continue
            if out and out[-1].startswith("'"):
                out[-1] = out[-1][:-1] + t[1:]
                continue
        out.append(t)
    return out


def _slot_nonnull(test, truth: bool) -> Set[str]:
    """memo slots `self._cached_Y` this branch outcome proves to hold a value (not None)"""
    if isinstance(test, ast.UnaryOp) and isinstance(test.op, ast.Not):
        return _slot_nonnull(test.operand, not truth)
    if isinstance(test, ast.BoolOp):
        if (isinstance(test.op, ast.And) and truth) or (isinstance(test.op, ast.Or) and not truth):
            out: Set[str] = set()
            for v in test.values:
                out |= _slot_nonnull(v, truth)
            return out
        return set()
    if isinstance(test, ast.Compare) and len(test.ops) == 1 and isinstance(test.comparators[0], ast.Constant) \
            and test.comparators[0].value is None and isinstance(test.left, ast.Attribute) and test.left.attr.startswith(PREFIX) \
            and isinstance(test.left.value, ast.Name) and test.left.value.id == 'self':
        if (isinstance(test.ops[0], ast.IsNot) and truth) or (isinstance(test.ops[0], ast.Is) and not truth):
            return {test.left.attr}
        return set()
    if truth and isinstance(test, ast.Attribute) and test.attr.startswith(PREFIX) and isinstance(test.value, ast.Name) and test.value.id == 'self':
        return {test.attr}
    return set()


class _UrlEval:
    """per-path reading of one composed accessor in one world (query string empty / non-empty)"""

    def __init__(self, p, cq: str, f: Func, owner: str, has_query: bool):
        self.p, self.cq, self.f, self.owner, self.has_query = p, cq, f, owner, has_query
        self.mem = effective_members(p, cq)
        self.slot = PREFIX + owner
        self.stores = []      # (store stmt, origin expr, tokens | _SlotUnset)

    # -- expressions ---------------------------------------------------------
    def member_tokens(self, name: str, node, depth: int) -> List[str]:
        if name in _URL_LEAVES:
            if name == _Q and not self.has_query:
                return []
            return [name]
        m = self.mem.get(name)
        if m is None:
            raise UnknownIdiom('%s: operand %s of the composition is not a member of %s' % (self.f.qual, short(node, 60), self.cq))
        # an alias of a composed accessor (url = uri) / the accessor itself: its tabled composition (the sibling has its own obligation)
        for comp in _URL_TABLE:
            cm = self.mem.get(comp)
            if cm is not None and cm.func is not None and m.func is cm.func:
                return _url_expected(comp, self.has_query)
        # a delegating property (`app`: return self.root_path): read through it
        g = m.func
        if g is not None and depth < 4 and getattr(m, 'kind', '') in ('property', 'alias'):
            body = [s for s in g.node.body if not (isinstance(s, ast.Expr) and isinstance(s.value, ast.Constant))]
            if len(body) == 1 and isinstance(body[0], ast.Return) and body[0].value is not None \
                    and isinstance(body[0].value, ast.Attribute) and isinstance(body[0].value.value, ast.Name) and body[0].value.value.id == 'self':
                return self.member_tokens(body[0].value.attr, node, depth + 1)
        raise UnknownIdiom('%s: operand %s of the composition is neither a tabled component nor a composed accessor' % (self.f.qual, short(node, 60)))

    def ev(self, e, env, nonnull) -> List[str]:
        if isinstance(e, ast.Constant) and isinstance(e.value, str):
            return ["'%s'" % e.value]
        if isinstance(e, ast.BinOp) and isinstance(e.op, ast.Add):
            return self.ev(e.left, env, nonnull) + self.ev(e.right, env, nonnull)
        if isinstance(e, ast.JoinedStr):
            out: List[str] = []
            for v in e.values:
                if isinstance(v, ast.FormattedValue):
                    if v.conversion != -1 or v.format_spec is not None:
                        raise UnknownIdiom('%s: formatted value %s' % (self.f.qual, short(v, 60)))
                    out += self.ev(v.value, env, nonnull)
                else:
                    out += self.ev(v, env, nonnull)
            return out
        if isinstance(e, ast.Call) and isinstance(e.func, ast.Attribute) and e.func.attr == 'join' and isinstance(e.func.value, ast.Constant) \
                and isinstance(e.func.value.value, str) and len(e.args) == 1 and not e.keywords and isinstance(e.args[0], (ast.Tuple, ast.List)) \
                and not any(isinstance(x, ast.Starred) for x in e.args[0].elts):
            out = []
            for i, x in enumerate(e.args[0].elts):
                if i:
                    out += self.ev(e.func.value, env, nonnull)
                out += self.ev(x, env, nonnull)
            return out
        if isinstance(e, ast.IfExp):
            truth = self.q_truth(e.test, env, nonnull)
            if truth is None:
                raise UnknownIdiom('%s: conditional operand %s' % (self.f.qual, short(e, 80)))
            return self.ev(e.body if truth else e.orelse, env, nonnull)
        if isinstance(e, ast.Name):
            if e.id not in env and e.id not in local_names(self.f):
                # a module-level text constant (`_SCHEME_SEP = '://'`)
                c = self.p.fold(self.f.module, e, None, self.f)
                if isinstance(c, str):
                    return ["'%s'" % c]
            if e.id not in env:
                raise UnknownIdiom('%s: operand %s is not a local bound on this path' % (self.f.qual, e.id))
            v = env[e.id][0]
            if isinstance(v, Exception):
                raise v
            return list(v)
        if isinstance(e, ast.Attribute) and isinstance(e.value, ast.Name) and e.value.id == 'self':
            if e.attr.startswith(PREFIX):
                other = e.attr[len(PREFIX):]
                if other not in _URL_TABLE or e.attr == self.slot:
                    raise UnknownIdiom('%s: memo slot %s as an operand of the composition' % (self.f.qual, e.attr))
                if e.attr not in nonnull:
                    raise _SlotUnset(e)
                return _url_expected(other, self.has_query)
            return self.member_tokens(e.attr, e, 0)
        raise UnknownIdiom('%s: operand %s of the URL composition has a shape this rule cannot read' % (self.f.qual, short(e, 80)))

    def q_truth(self, test, env, nonnull) -> Optional[bool]:
        """outcome of a test that speaks about the query string only (None: about something else)"""
        def is_q(x):
            if isinstance(x, ast.Attribute) and x.attr == _Q and isinstance(x.value, ast.Name) and x.value.id == 'self':
                return True
            return isinstance(x, ast.Name) and x.id in env and env[x.id][2]
        if is_q(test):
            return self.has_query
        if isinstance(test, ast.UnaryOp) and isinstance(test.op, ast.Not):
            r = self.q_truth(test.operand, env, nonnull)
            return None if r is None else (not r)
        if isinstance(test, ast.Compare) and len(test.ops) == 1 and is_q(test.left) and isinstance(test.comparators[0], ast.Constant) \
                and test.comparators[0].value == '' and isinstance(test.ops[0], (ast.Eq, ast.NotEq)):
            return (not self.has_query) if isinstance(test.ops[0], ast.Eq) else self.has_query
        if any(is_q(x) for x in walk_self(test)):
            raise UnknownIdiom('%s: test %s mixes the query string with other conditions' % (self.f.qual, short(test, 80)))
        return None

    # -- paths ---------------------------------------------------------------
    def run(self, cfg):
        # env: local -> (tokens | exception to raise on use, origin expr, is the bare query string)
        stack = [(cfg.entry, {}, frozenset(), frozenset())]
        steps = 0
        while stack:
            nid, env, nonnull, onpath = stack.pop()
            steps += 1
            if steps > 4000:
                raise UnknownIdiom('%s: too many paths' % self.f.qual)
            if nid in onpath:
                raise UnknownIdiom('%s: a loop in a composed URL accessor' % self.f.qual)
            n = cfg.node(nid)
            onpath2 = onpath | {nid}
            if n.kind in ('iter', 'with', 'handler'):
                raise UnknownIdiom('%s: %s in a composed URL accessor' % (self.f.qual, n.text()))
            if n.kind == 'stmt':
                env = self.stmt(n.ast, env, nonnull)
            for (j, lab) in cfg.succ.get(nid, []):
                if lab == 'exc':
                    continue
                nn = nonnull
                if n.kind == 'test' and lab in ('T', 'F'):
                    t = self.q_truth(n.ast, env, nonnull)
                    if t is not None and t != (lab == 'T'):
                        continue
                    nn = nonnull | _slot_nonnull(n.ast, lab == 'T')
                stack.append((j, env, nn, onpath2))

    def stmt(self, a, env, nonnull):
        if isinstance(a, (ast.Assign, ast.AnnAssign)):
            tgs = a.targets if isinstance(a, ast.Assign) else [a.target]
            if a.value is None:
                return env
            stores = [t for t in tgs if is_self_attr(t, self.slot)]
            names = [t for t in tgs if isinstance(t, ast.Name)]
            if len(stores) + len(names) != len(tgs):
                if any(isinstance(x, ast.Attribute) and x.attr == self.slot for t in tgs for x in walk_self(t)):
                    raise UnknownIdiom('%s: store shape %s' % (self.f.qual, short(a, 80)))
                names_killed = [x.id for t in tgs for x in walk_self(t) if isinstance(x, ast.Name) and isinstance(x.ctx, ast.Store)]
                env = dict(env)
                for nm in names_killed:
                    env[nm] = (UnknownIdiom('%s: local %s bound by %s' % (self.f.qual, nm, short(a, 60))), a.value, False)
                return env
            origin = a.value
            if isinstance(a.value, ast.Name) and a.value.id in env:
                origin = env[a.value.id][1]
            try:
                val = self.ev(a.value, env, nonnull)
            except _SlotUnset as e:
                val = e
            except UnknownIdiom as e:
                if stores:
                    raise
                val = e
            if stores:
                self.stores.append((a, origin, val))
            if names:
                env = dict(env)
                is_q = is_self_attr(a.value, _Q) or (isinstance(a.value, ast.Name) and a.value.id in env and env[a.value.id][2])
                for t in names:
                    env[t.id] = (val, origin, is_q)
            return env
        if isinstance(a, ast.AugAssign):
            if isinstance(a.target, ast.Name) and isinstance(a.op, ast.Add):
                env = dict(env)
                try:
                    val = self.ev(a.target, env, nonnull) + self.ev(a.value, env, nonnull)
                except (_SlotUnset, UnknownIdiom) as e:
                    val = e
                env[a.target.id] = (val, a, False)
                return env
            if any(isinstance(x, ast.Attribute) and x.attr == self.slot for x in walk_self(a.target)):
                raise UnknownIdiom('%s: in-place update %s of the memo slot' % (self.f.qual, short(a, 80)))
            return env
        if isinstance(a, (ast.Return, ast.Expr, ast.Pass, ast.Raise, ast.Assert)):
            return env
        raise UnknownIdiom('%s: statement %s in a composed URL accessor' % (self.f.qual, short(a, 80)))


def r19_url_composition(run):
    """uri / forwarded_uri / relative_uri / prefix / forwarded_prefix are concatenations of a fixed, ordered list of components
    (table _URL_TABLE, one reason each).  Every value stored into the accessor's memo slot is read per path as the flattened
    operand list of its `+` / ''.join / f-string (locals followed along the path; another composed accessor -- or its memo
    slot, which by R2 holds that accessor's value once a test has shown it is not None -- stands for ITS tabled components) and
    must equal the tabled list, in both worlds query string empty / non-empty, on EVERY path: a shortcut that builds on a
    sibling's memoised value is judged like any other composition, so the value cannot depend on which accessor was read first.
    A memo slot of a sibling read where it may still be None is a violation too (None + str).
    W: SCRIPT_NAME=/api, read req.prefix then req.uri -> 'http://host/api/api/orders' (prefix ends with the mount point,
    relative_uri starts with it); read in the other order the answer is right."""
    p = run.project
    done = set()
    n_ob = 0
    for cq in (WSGI_REQ, ASGI_REQ):
        mem = effective_members(p, cq)
        init = p.lookup_method(cq, '__init__')
        inst = {t.attr for n in (walk_no_nested(init.node) if init is not None else ()) if isinstance(n, (ast.Assign, ast.AnnAssign))
                for t in (n.targets if isinstance(n, ast.Assign) else [n.target]) if isinstance(t, ast.Attribute) and is_self_attr(t, t.attr)}
        for leaf in _URL_LEAVES:
            if leaf not in mem and leaf not in inst:
                raise AnchorError('%s has neither a member nor a constructor-set attribute `%s`' % (cq, leaf))
        for owner in sorted(_URL_TABLE):
            m = mem.get(owner)
            if m is None or m.func is None:
                raise AnchorError('%s: composed accessor `%s` not found' % (cq, owner))
            f = m.func
            if f.qual in done:
                continue
            done.add(f.qual)
            sentinel = _sentinel(p, cq, PREFIX + owner)
            if not (isinstance(sentinel, ast.Constant) and sentinel.value is None):
                raise UnknownIdiom('%s: the memo slot %s%s does not start as None' % (f.qual, PREFIX, owner))
            cfg = cfg_of(f, p)
            run.use_cfg(cfg)
            sites: Dict[tuple, dict] = {}
            for has_query in (True, False):
                ue = _UrlEval(p, cq, f, owner, has_query)
                ue.run(cfg)
                if not ue.stores:
                    raise UnknownIdiom('%s: no store into self.%s%s found on any path (query string %s)' % (
                        f.qual, PREFIX, owner, 'present' if has_query else 'empty'))
                for stmt, origin, val in ue.stores:
                    s = sites.setdefault((id(stmt), id(origin)), {'stmt': stmt, 'origin': origin, 'bad': [], 'unset': None})
                    if isinstance(val, _SlotUnset):
                        s['unset'] = val.node
                        continue
                    got, exp = _url_norm(val), _url_norm(_url_expected(owner, has_query))
                    if got != exp:
                        s['bad'].append('query string %s: composes %s; tabled: %s' % ('present' if has_query else 'empty', ' + '.join(got) or "''", ' + '.join(exp)))
            for s in sites.values():
                n_ob += 1
                if s['unset'] is not None:
                    run.fail('%s reads the memo slot %s of a sibling accessor where it may still be None' % (owner, short(s['unset'])), f, s['origin'],
                             where=f.loc(s['stmt']), runtime_witness='first read of req.%s on a fresh request: None + str -> TypeError (a 500)' % owner)
                    continue
                run.check(not s['bad'], 'req.%s is composed of exactly %s on this path (%s)' % (owner, ' + '.join(_URL_TABLE[owner][0]), _URL_TABLE[owner][1]),
                          f, s['origin'], where=f.loc(s['stmt']), witness=s['bad'] or None,
                          runtime_witness='SCRIPT_NAME=/api: req.prefix read before req.%s -> the mount point appears twice (http://host/api/api/orders); '
                                          'the value depends on which accessor was read first and is then memoised' % owner)
    run.extra['c09_r19'] = {'accessors': sorted(done), 'store_sites': n_ob}
    return n_ob


# ---------------------------------------------------------------------------
# R20 forwarded_host: the ordered list of sources, both stacks (evaluation over header-presence worlds)
# ---------------------------------------------------------------------------

# (Forwarded header, X-Forwarded-Host header) -> the source forwarded_host answers with.  Documented order of preference
# (docstring: Forwarded, then X-Forwarded-Host, else the request's own host) as the WSGI class implements it; "own host"
# is the AUTHORITY the request was addressed to, i.e. netloc (Host header with its port): forwarded_uri / forwarded_prefix
# compose `forwarded_scheme://forwarded_host` + path and, without a proxy header, must reproduce uri / prefix.
_FH_FORWARDED = ('absent', 'no element', 'first hop has host', 'first hop lacks host')
_FH_TABLE = {
    ('first hop has host', True): 'Forwarded[0].host', ('first hop has host', False): 'Forwarded[0].host',   # RFC 7239 5.3, first hop wins
    ('first hop lacks host', True): 'netloc', ('first hop lacks host', False): 'netloc',   # a Forwarded header is authoritative; own authority
    ('no element', True): 'netloc', ('no element', False): 'netloc',                       # unusable Forwarded header: own authority
    ('absent', True): 'X-Forwarded-Host',                                                  # de-facto header, second preference
    ('absent', False): 'netloc',                                                           # no proxy header: own authority (= uri's)
}
_FH_STR_KEEP = ('decode', 'strip', 'lstrip', 'rstrip')


class _FHKeyError(Exception):
    pass


class _FHReturn(Exception):
    def __init__(self, value):
        Exception.__init__(self)
        self.value = value


class _FwdHostEval:
    """forwarded_host of one class evaluated in one world: the values are SOURCES (which header / accessor the text
    comes from), None, the Forwarded list, its first element, or booleans."""

    def __init__(self, f: Func, fwd: str, xfh: bool):
        self.f, self.fwd, self.xfh = f, fwd, xfh

    def bad(self, what, node=None):
        raise UnknownIdiom('%s: %s%s' % (self.f.qual, what, (': ' + short(node, 80)) if node is not None else ''))

    def header(self, table_expr, key_expr) -> Optional[str]:
        t = table_of(self.f, table_expr)
        if t is None or not isinstance(key_expr, ast.Constant):
            return None
        from .c09_helpers import norm_header_key
        return norm_header_key(t[0], key_expr.value)

    @staticmethod
    def truthy(v) -> bool:
        if v[0] == 'bool':
            return v[1]
        return v[0] in ('src', 'list', 'hop')

    def present(self, h, node) -> bool:
        if h == 'forwarded':
            return self.fwd != 'absent'
        if h == 'x-forwarded-host':
            return self.xfh
        self.bad('the answer depends on another header', node)

    def ev(self, e, env, origin):
        if isinstance(e, ast.Constant):
            if e.value is None:
                return ('none',)
            if isinstance(e.value, bool):
                return ('bool', e.value)
            self.bad('constant operand', e)
        if isinstance(e, ast.Name):
            if e.id not in env:
                self.bad('local not bound on this path', e)
            return env[e.id]
        if isinstance(e, ast.BoolOp):
            v = None
            for x in e.values:
                v = self.ev(x, env, origin)
                if self.truthy(v) != isinstance(e.op, ast.And):
                    return v
            return v
        if isinstance(e, ast.UnaryOp) and isinstance(e.op, ast.Not):
            return ('bool', not self.truthy(self.ev(e.operand, env, origin)))
        if isinstance(e, ast.IfExp):
            return self.ev(e.body if self.truthy(self.ev(e.test, env, origin)) else e.orelse, env, origin)
        if isinstance(e, ast.Compare) and len(e.ops) == 1:
            op, right = e.ops[0], e.comparators[0]
            if isinstance(op, (ast.In, ast.NotIn)):
                h = self.header(right, e.left)
                if h is None:
                    self.bad('membership test', e)
                return ('bool', self.present(h, e) == isinstance(op, ast.In))
            if isinstance(op, (ast.Is, ast.IsNot)) and isinstance(right, ast.Constant) and right.value is None:
                v = self.ev(e.left, env, origin)
                return ('bool', (v[0] == 'none') == isinstance(op, ast.Is))
            self.bad('comparison', e)
        if isinstance(e, ast.Attribute):
            if isinstance(e.value, ast.Name) and e.value.id == 'self':
                if e.attr == 'forwarded':
                    return ('list',) if self.fwd in ('first hop has host', 'first hop lacks host') else ('none',)
                if table_of(self.f, e) is not None:
                    self.bad('request table used as a value', e)
                return ('src', e.attr, origin)
            v = self.ev(e.value, env, origin)
            if v[0] == 'hop':
                if e.attr == 'host':
                    return ('src', 'Forwarded[%d].host' % v[1], origin) if (self.fwd == 'first hop has host' or v[1] != 0) else ('none',)
                return ('src', 'Forwarded[%d].%s' % (v[1], e.attr), origin)
            self.bad('attribute read', e)
        if isinstance(e, ast.Subscript):
            h = self.header(e.value, e.slice)
            if h is not None:
                if not self.present(h, e):
                    raise _FHKeyError()
                if h == 'forwarded':
                    self.bad('the raw Forwarded header is read here', e)
                return ('src', 'X-Forwarded-Host', origin)
            v = self.ev(e.value, env, origin)
            if v[0] == 'list' and isinstance(e.slice, ast.Constant) and isinstance(e.slice.value, int):
                return ('hop', e.slice.value)
            if v[0] == 'list' and isinstance(e.slice, ast.UnaryOp) and isinstance(e.slice.op, ast.USub) and isinstance(e.slice.operand, ast.Constant):
                return ('hop', -e.slice.operand.value)
            self.bad('subscript', e)
        if isinstance(e, ast.Call) and isinstance(e.func, ast.Attribute):
            if e.func.attr == 'get' and 1 <= len(e.args) <= 2 and not e.keywords:
                h = self.header(e.func.value, e.args[0])
                if h is not None:
                    if h == 'forwarded':
                        self.bad('the raw Forwarded header is read here', e)
                    if self.present(h, e):
                        return ('src', 'X-Forwarded-Host', origin)
                    return self.ev(e.args[1], env, origin) if len(e.args) == 2 else ('none',)
            if e.func.attr in _FH_STR_KEEP:
                v = self.ev(e.func.value, env, origin)
                if v[0] == 'src':
                    return v
        self.bad('operand has a shape this rule cannot read', e)

    def block(self, stmts, env):
        for s in stmts:
            if isinstance(s, (ast.Pass,)) or (isinstance(s, ast.Expr) and isinstance(s.value, ast.Constant)):
                continue
            if isinstance(s, (ast.Assign, ast.AnnAssign)) and s.value is not None:
                tgs = s.targets if isinstance(s, ast.Assign) else [s.target]
                if not all(isinstance(t, ast.Name) for t in tgs):
                    self.bad('store', s)
                v = self.ev(s.value, env, s.value)
                for t in tgs:
                    env[t.id] = v
            elif isinstance(s, ast.If):
                self.block(s.body if self.truthy(self.ev(s.test, env, s.test)) else s.orelse, env)
            elif isinstance(s, ast.Return):
                raise _FHReturn(self.ev(s.value, env, s.value) if s.value is not None else ('none',))
            elif isinstance(s, ast.Try) and not s.finalbody:
                try:
                    self.block(s.body, env)
                except _FHKeyError:
                    for h in s.handlers:
                        names = [short(x) for x in (h.type.elts if isinstance(h.type, ast.Tuple) else [h.type])] if h.type is not None else ['Exception']
                        if any(nm in ('KeyError', 'LookupError', 'Exception', 'BaseException') for nm in names):
                            self.block(h.body, env)
                            break
                    else:
                        raise
                else:
                    self.block(s.orelse, env)
            else:
                self.bad('statement', s)

    def result(self):
        try:
            self.block(self.f.node.body, {})
        except _FHReturn as r:
            return r.value
        except _FHKeyError:
            return ('raises', 'KeyError')
        return ('none',)


def r20_forwarded_host_sources(run):
    """forwarded_host answers from an ordered list of sources -- the host of the first Forwarded element, the
    X-Forwarded-Host header, the request's own authority -- and the own authority is `netloc` (Host header WITH its
    port), never `host`: forwarded_uri / forwarded_prefix are composed of it.  Both request classes are evaluated in
    the 8 worlds {Forwarded absent / without element / first hop with / without host=} x {X-Forwarded-Host present /
    absent}; in each world the source of the returned text must be the tabled one (so the two stacks agree, world by world).
    W: ASGI, Host: backend.internal:8080, Forwarded: for=192.0.2.60;proto=https -> forwarded_host 'backend.internal',
    forwarded_uri 'https://backend.internal/...' while WSGI keeps the port."""
    p = run.project
    n = 0
    for cq in (WSGI_REQ, ASGI_REQ):
        m = effective_members(p, cq).get('forwarded_host')
        if m is None or m.func is None:
            raise AnchorError('%s.forwarded_host not found' % cq)
        f = m.func
        run.use(f)
        bad: Dict[int, dict] = {}
        for fwd in _FH_FORWARDED:
            for xfh in (True, False):
                want = _FH_TABLE[(fwd, xfh)]
                got = _FwdHostEval(f, fwd, xfh).result()
                world = 'Forwarded: %s, X-Forwarded-Host %s' % (fwd, 'present' if xfh else 'absent')
                n += 1
                if got[0] == 'src' and got[1] == want:
                    run.ok('%s.forwarded_host answers with %s when %s' % (cq, want, world), f.loc(), '%s [%s]' % (want, world))
                    continue
                origin = got[2] if got[0] == 'src' else None
                text = got[1] if got[0] == 'src' else ('None' if got[0] == 'none' else ' '.join(str(x) for x in got))
                b = bad.setdefault(id(origin), {'origin': origin, 'wit': []})
                b['wit'].append('%s: answers with %s, tabled source: %s' % (world, text, want))
        for b in bad.values():
            cons = b['origin'] if b['origin'] is not None else 'forwarded_host result'
            run.fail('%s.forwarded_host takes its value from the tabled source in every world (Forwarded first hop, then X-Forwarded-Host, '
                     'else the own authority netloc -- never the port-less host)' % cq, f, cons,
                     where=f.loc(cons) if isinstance(cons, ast.AST) else f.loc(), witness=b['wit'],
                     runtime_witness="Host: backend.internal:8080 + 'Forwarded: for=192.0.2.60;proto=https': forwarded_host == 'backend.internal' "
                                     "(port lost) on one stack, 'backend.internal:8080' on the other; forwarded_uri / forwarded_prefix follow")
    return n
