"""Shared helpers for C06 / C08 / C09.

* frozen exemption tables (server-mandated keys, server-controlled values),
  one reason per entry, never a wildcard;
* ``SiteEscape``: the E5 escape analysis of ``sa.escape`` extended (by
  subclassing, the engine file is frozen) with
    - origin *sites*: every escaping class is tracked per originating
      construct, so one defect is reported once however many accessors reach it;
    - constant propagation of boolean/None arguments and parameter defaults
      into callees plus dead-code pruning (``get_header(name)`` cannot raise
      ``HTTPMissingHeader`` because ``required`` defaults to False);
    - alias handling for request tables (``headers = self._asgi_headers``),
      module-level dict tables (``_HEX_TO_BYTE[...]``), class-level aliases
      (``url = uri``), factory-built properties (``_header_property``) and
      conditional module aliases (``_join_tokens = a if PYPY else b``);
    - *checked* exemptions (DESIGN 1.3.7) for server-controlled conversions;
* the effective member table of a class (methods, properties, aliases,
  factory properties) by MRO;
* dominance facts, HTTP status of an error class, header-key normalisation.
"""

from __future__ import annotations

import ast
from typing import Callable, Dict, List, Optional, Set, Tuple

from .. import flow
from ..cfg import CFG
from ..escape import (PRIM_CALLS, PRIM_METHODS, REQUEST_TABLES, TOTAL_CODECS, UTF_CODECS, Escape, _codec_args,
                      _in_guards, _is_split_call, _is_total_int_arg)
from ..model import (UNKNOWN, AnchorError, Class, Func, Project, UnknownIdiom, attr_chain, func_owner_class, short,
                     walk_no_nested)
from .common import implied, walk_self

WSGI_REQ = 'falcon.request.Request'
ASGI_REQ = 'falcon.asgi.request.Request'

# ---------------------------------------------------------------------------
# frozen exemption tables
# ---------------------------------------------------------------------------

# request table (attribute chain) -> kind
TABLE_KINDS: Dict[Tuple[str, ...], str] = {
    ('self', 'env'): 'environ',
    ('env',): 'environ',
    ('self', 'scope'): 'scope',
    ('scope',): 'scope',
    ('self', '_asgi_headers'): 'asgi-headers',
    ('self', '_cookies'): 'cookies',
    ('self', '_params'): 'params',
    ('self', '_cached_headers'): 'cached-headers',
}
assert set(TABLE_KINDS) == set(REQUEST_TABLES), 'request tables of sa.escape changed'

# (table kind, key) -> reason.  Reads of these keys cannot raise KeyError
# because the gateway specification obliges the *server* to provide them.
SERVER_KEYS: Dict[Tuple[str, object], str] = {
    ('environ', 'REQUEST_METHOD'): 'PEP 3333: REQUEST_METHOD can never be empty and is always required',
    ('environ', 'SERVER_NAME'): 'PEP 3333: SERVER_NAME can never be empty and is always required',
    ('environ', 'SERVER_PORT'): 'PEP 3333: SERVER_PORT can never be empty and is always required',
    ('environ', 'PATH_INFO'): 'PEP 3333 CGI variable set by the server for every request (may be the empty string)',
    ('environ', 'wsgi.url_scheme'): 'PEP 3333: wsgi.url_scheme is a required WSGI variable',
    ('environ', 'wsgi.input'): 'PEP 3333: wsgi.input is a required WSGI variable',
    ('environ', 'wsgi.errors'): 'PEP 3333: wsgi.errors is a required WSGI variable',
    ('scope', 'type'): 'ASGI: every connection scope carries a type',
    ('scope', 'method'): 'ASGI HTTP scope: method is a required key (only read for non-websocket scopes)',
    ('scope', 'path'): 'ASGI HTTP/WebSocket scope: path is a required key',
    ('scope', 'headers'): 'ASGI HTTP/WebSocket scope: headers is sent by the server (framework relies on it since 3.0)',
    ('scope', 'query_string'): 'ASGI HTTP/WebSocket scope: query_string is sent by the server as a byte string',
}

# (table kind, key) whose *value* is produced by the server, not the client:
# converting it with int() is not a client-triggerable failure.
SERVER_VALUES: Dict[Tuple[str, object], str] = {
    ('environ', 'SERVER_PORT'): 'PEP 3333: SERVER_PORT is the server\'s own listening port, a decimal string',
}

# (table kind, key) whose value is a native string of code points <= U+00FF
# (bytes tunnelled as latin-1), so .encode('iso-8859-1') is total.
LATIN1_TUNNELLED: Dict[Tuple[str, object], str] = {
    ('environ', 'PATH_INFO'): 'PEP 3333: PATH_INFO is a native string holding bytes tunnelled as ISO-8859-1',
}

# (function, parameter) -> reason: the argument is chosen by the application,
# never derived from the request, so encoding it is not client-triggerable.
APP_SUPPLIED_PARAMS: Dict[Tuple[str, str], str] = {
    (ASGI_REQ + '.get_header', 'name'): 'the header *name* passed to get_header() is chosen by the application',
}

# accessors of C09 R1 (frozen list, DESIGN C09)
C09_ACCESSORS = (
    'content_length', 'range', 'range_unit', 'date', 'if_match', 'if_none_match', 'if_modified_since',
    'if_unmodified_since', 'cookies', 'get_cookie_values', 'forwarded', 'access_route', 'remote_addr',
    'forwarded_scheme', 'forwarded_host', 'host', 'port', 'netloc', 'subdomain', 'uri', 'url', 'prefix',
    'relative_uri', 'forwarded_uri', 'forwarded_prefix', 'headers', 'headers_lower', 'accept',
    'client_accepts', 'client_accepts_json', 'client_accepts_msgpack', 'client_accepts_xml', 'client_prefers',
    'get_header', 'get_header_as_int', 'get_header_as_datetime',
)

SEP = ' @@ '
UNK = UNKNOWN


def norm(node) -> str:
    return ' '.join(short(node, 200).split())


class Origin(tuple):
    """(where, text) chain element that also knows its function and construct."""

    def __new__(cls, where, text, fq, cons):
        o = tuple.__new__(cls, (where, text))
        o.fq = fq
        o.cons = cons
        return o

    @property
    def key(self):
        return '%s :: %s' % (self.fq, self.cons)


def split_key(k: str) -> Tuple[str, str]:
    """summary key -> (exception class, origin key)"""
    cls, _, org = k.partition(SEP)
    return cls, org


def classes_of(summary) -> Set[str]:
    return {split_key(k)[0] for k in summary}


def unguarded_keys(E, summaries) -> Dict[Tuple[str, object], List[str]]:
    """(table kind, key) -> origin sites, for constant-key table reads whose
    KeyError escapes the function that makes them."""
    out: Dict[Tuple[str, object], List[str]] = {}
    for summ in summaries:
        for k in summ:
            cls, org = split_key(k)
            if cls == 'builtins.KeyError' and org in E.key_sites:
                lst = out.setdefault(E.key_sites[org], [])
                if org not in lst:
                    lst.append(org)
    return out


# ---------------------------------------------------------------------------
# per-function assignment index
# ---------------------------------------------------------------------------

_ASSIGN_CACHE: Dict[int, Dict[str, List[Optional[ast.AST]]]] = {}


def assignments(func: Func) -> Dict[str, List[Optional[ast.AST]]]:
    """local name -> list of assigned value expressions; None marks a binding
    whose value is not a plain expression (loop target, unpacking, with, ...)."""
    key = id(func.node)
    if key in _ASSIGN_CACHE:
        return _ASSIGN_CACHE[key]
    out: Dict[str, List[Optional[ast.AST]]] = {}

    def bind(t, v):
        if isinstance(t, ast.Name):
            out.setdefault(t.id, []).append(v)
        elif isinstance(t, (ast.Tuple, ast.List)):
            if isinstance(v, (ast.Tuple, ast.List)) and len(v.elts) == len(t.elts):
                for te, ve in zip(t.elts, v.elts):
                    bind(te, ve)
            else:
                for te in t.elts:
                    bind(te, None)
        elif isinstance(t, ast.Starred):
            bind(t.value, None)

    for n in walk_no_nested(func.node):
        if isinstance(n, ast.Assign):
            for t in n.targets:
                bind(t, n.value)
        elif isinstance(n, ast.AnnAssign) and n.value is not None:
            bind(n.target, n.value)
        elif isinstance(n, ast.AugAssign):
            bind(n.target, None)
        elif isinstance(n, (ast.For, ast.AsyncFor)):
            bind(n.target, None)
        elif isinstance(n, (ast.With, ast.AsyncWith)):
            for it in n.items:
                if it.optional_vars is not None:
                    bind(it.optional_vars, None)
        elif isinstance(n, ast.NamedExpr):
            bind(n.target, None)
        elif isinstance(n, ast.comprehension):
            bind(n.target, None)
        elif isinstance(n, ast.ExceptHandler) and n.name:
            out.setdefault(n.name, []).append(None)
    _ASSIGN_CACHE[key] = out
    return out


def table_aliases(func: Func) -> Dict[str, Tuple[str, ...]]:
    """local name -> request-table chain it denotes (``headers = self._asgi_headers``
    or, in a constructor, ``self._asgi_headers = req_headers``)."""
    res: Dict[str, Tuple[str, ...]] = {}
    asg = assignments(func)
    for name, vals in asg.items():
        chains = set()
        for v in vals:
            ch = attr_chain(v) if v is not None else None
            if ch in TABLE_KINDS and len(ch) > 1:
                chains.add(ch)
        if len(chains) == 1 and all(v is not None and attr_chain(v) in chains for v in vals):
            res[name] = next(iter(chains))
    for n in walk_no_nested(func.node):
        if isinstance(n, (ast.Assign, ast.AnnAssign)) and isinstance(n.value, ast.Name):
            for t in (n.targets if isinstance(n, ast.Assign) else [n.target]):
                ch = attr_chain(t)
                if ch in TABLE_KINDS and len(ch) > 1 and n.value.id not in func.params():
                    res.setdefault(n.value.id, ch)
    return res


def table_of(func: Func, expr) -> Optional[Tuple[str, Tuple[str, ...]]]:
    """(kind, chain as written) if expr denotes a request table."""
    ch = attr_chain(expr)
    if ch is None:
        return None
    if ch in TABLE_KINDS:
        return TABLE_KINDS[ch], ch
    if len(ch) == 1:
        al = table_aliases(func).get(ch[0])
        if al is not None:
            return TABLE_KINDS[al], ch
    return None


def _strip_default(v):
    """`x or <const>` -> x"""
    while isinstance(v, ast.BoolOp) and isinstance(v.op, ast.Or) and all(isinstance(x, ast.Constant) for x in v.values[1:]):
        v = v.values[0]
    return v


def _in_loop(func: Func, node) -> bool:
    def rec(cur, inside):
        if cur is node:
            return inside
        for ch in ast.iter_child_nodes(cur):
            r = rec(ch, inside or isinstance(cur, (ast.For, ast.AsyncFor, ast.While)))
            if r is not None:
                return r
        return None

    return bool(rec(func.node, False))


def derives_only_from(func: Func, expr, pred: Callable[[ast.AST], bool], use_site=None, _depth=0) -> bool:
    """expr is pred-accepted, or a local all of whose bindings are.  A binding
    whose right-hand side contains `use_site` itself (``x = f(x)`` outside any
    loop) cannot reach that use and is skipped."""
    expr = _strip_default(expr)
    if pred(expr):
        return True
    if isinstance(expr, ast.Name) and _depth < 4 and expr.id not in func.params():
        vals = assignments(func).get(expr.id)
        if not vals:
            return False
        if use_site is not None and not _in_loop(func, use_site):
            vals = [v for v in vals if v is None or not any(x is use_site for x in ast.walk(v))]
            if not vals:
                return False
        return all(v is not None and derives_only_from(func, v, pred, use_site, _depth + 1) for v in vals)
    return False


def const_key(expr):
    return expr.value if isinstance(expr, ast.Constant) else UNK


def is_table_read(func: Func, expr, table: Dict[Tuple[str, object], str]) -> Optional[str]:
    """reason if expr is `<table>[<const key>]` with (kind,key) in `table`."""
    if isinstance(expr, ast.Subscript):
        t = table_of(func, expr.value)
        if t is not None:
            k = const_key(expr.slice)
            if k is not UNK:
                return table.get((t[0], k))
    return None


# ---------------------------------------------------------------------------
# constant evaluation of guards under known parameter values
# ---------------------------------------------------------------------------

def ceval(expr, ctx: Dict[str, object]):
    if isinstance(expr, ast.Constant):
        return expr.value
    if isinstance(expr, ast.Name):
        return ctx.get(expr.id, UNK) if expr.id in ctx else UNK
    if isinstance(expr, ast.UnaryOp) and isinstance(expr.op, ast.Not):
        v = ceval(expr.operand, ctx)
        return UNK if v is UNK else (not v)
    if isinstance(expr, ast.Compare) and len(expr.ops) == 1:
        a, b = ceval(expr.left, ctx), ceval(expr.comparators[0], ctx)
        if a is UNK or b is UNK:
            return UNK
        op = expr.ops[0]
        if isinstance(op, ast.Is):
            return a is b
        if isinstance(op, ast.IsNot):
            return a is not b
        if isinstance(op, ast.Eq):
            return a == b
        if isinstance(op, ast.NotEq):
            return a != b
        return UNK
    if isinstance(expr, ast.BoolOp):
        vals = [ceval(v, ctx) for v in expr.values]
        if isinstance(expr.op, ast.And):
            for v in vals:
                if v is UNK:
                    return UNK
                if not v:
                    return v
            return vals[-1]
        for v in vals:
            if v is UNK:
                return UNK
            if v:
                return v
        return vals[-1]
    return UNK


def _is_simple_const(v) -> bool:
    return v is None or isinstance(v, bool)


def _stored_names(func: Func) -> Set[str]:
    return set(assignments(func))


def call_context(caller_ctx: Dict[str, object], call: ast.Call, target: Func, bound: bool) -> Dict[str, object]:
    """Known boolean/None parameter values of `target` for this call."""
    a = target.node.args
    if a.vararg is not None and call.args and len(call.args) > len(a.posonlyargs + a.args):
        return {}
    if any(isinstance(x, ast.Starred) for x in call.args) or any(k.arg is None for k in call.keywords):
        return {}
    pos = [x.arg for x in a.posonlyargs + a.args]
    defaults: Dict[str, ast.AST] = {}
    for name, d in zip(pos[len(pos) - len(a.defaults):], a.defaults):
        defaults[name] = d
    for x, d in zip(a.kwonlyargs, a.kw_defaults):
        if d is not None:
            defaults[x.arg] = d
    if bound and pos:
        pos = pos[1:]
    given: Dict[str, ast.AST] = {}
    for name, arg in zip(pos, call.args):
        given[name] = arg
    for k in call.keywords:
        given[k.arg] = k.value
    reassigned = _stored_names(target)
    ctx: Dict[str, object] = {}
    for name in pos + [x.arg for x in a.kwonlyargs]:
        if name in reassigned:
            continue
        if name in given:
            v = ceval(given[name], caller_ctx)
        elif name in defaults:
            v = ceval(defaults[name], {})
        else:
            continue
        if v is not UNK and _is_simple_const(v):
            ctx[name] = v
    return ctx


def _not_in_guards(test) -> Set[Tuple[str, str]]:
    """`k in d` facts that hold when `test` is FALSE (test = `k not in d`,
    `not (k in d)`, or a disjunction containing such terms)."""
    out: Set[Tuple[str, str]] = set()
    terms = list(test.values) if isinstance(test, ast.BoolOp) and isinstance(test.op, ast.Or) else [test]
    for t in terms:
        if isinstance(t, ast.UnaryOp) and isinstance(t.op, ast.Not):
            out |= _in_guards(t.operand) if not isinstance(t.operand, ast.BoolOp) else set()
        elif isinstance(t, ast.Compare) and len(t.ops) == 1 and isinstance(t.ops[0], ast.NotIn):
            d = '.'.join(attr_chain(t.comparators[0]) or ())
            if d:
                out.add((short(t.left), d))
    return out


def _terminates(s, ctx) -> bool:
    """Control never continues after statement s (under ctx)."""
    if isinstance(s, (ast.Return, ast.Raise, ast.Continue, ast.Break)):
        return True
    if isinstance(s, ast.If):
        v = ceval(s.test, ctx)
        if v is UNK:
            return bool(s.orelse) and _block_terminates(s.body, ctx) and _block_terminates(s.orelse, ctx)
        return _block_terminates(s.body, ctx) if v else (bool(s.orelse) and _block_terminates(s.orelse, ctx))
    if isinstance(s, (ast.With, ast.AsyncWith)):
        return _block_terminates(s.body, ctx)
    return False


def _block_terminates(stmts, ctx) -> bool:
    return any(_terminates(s, ctx) for s in stmts)


# ---------------------------------------------------------------------------
# effective member table
# ---------------------------------------------------------------------------

class Member:
    def __init__(self, name, kind, owner: str, func: Optional[Func], node=None, target: Optional[str] = None):
        self.name = name
        self.kind = kind  # method | property | alias | factory | data
        self.owner = owner  # class that defines it
        self.func = func  # body that runs (fget of a factory property, aliased method)
        self.node = node  # class-level statement for attrs
        self.target = target  # aliased member name

    def __repr__(self):
        return '<Member %s %s of %s>' % (self.kind, self.name, self.owner)


def _property_arg(p: Project, m, v) -> Optional[str]:
    """name N when v is `property(N)` possibly wrapped in cast(...)."""
    if isinstance(v, ast.Call) and isinstance(v.func, ast.Name) and v.func.id == 'cast' and len(v.args) == 2:
        v = v.args[1]
    if (isinstance(v, ast.Call) and isinstance(v.func, ast.Name) and v.func.id == 'property' and v.args
            and isinstance(v.args[0], ast.Name)):
        return v.args[0].id
    return None


def factory_getter(p: Project, c: Class, v) -> Optional[Func]:
    """fget Func if v is a call of a module function that returns property(<nested def>)."""
    if not isinstance(v, ast.Call):
        return None
    q = p.resolve_expr(c.module, v.func)
    f = p.funcs.get(q) if q else None
    if f is None:
        return None
    for n in walk_no_nested(f.node):
        if isinstance(n, ast.Return):
            g = _property_arg(p, f.module, n.value)
            if g is not None and g in f.nested:
                return f.nested[g]
    return None


def own_members(p: Project, c: Class) -> Dict[str, Member]:
    out: Dict[str, Member] = {}
    for name, f in c.methods.items():
        out[name] = Member(name, 'property' if f.is_property() else 'method', c.qual, f)
    for name, v in c.attrs.items():
        if name in out:
            raise UnknownIdiom('%s.%s is defined both by def and by assignment' % (c.qual, name))
        node = c.attr_nodes.get(name)
        if isinstance(v, ast.Name) and (v.id in c.methods or v.id in c.attrs):
            out[name] = Member(name, 'alias', c.qual, None, node, v.id)
            continue
        g = _property_arg(p, c.module, v)
        if g is not None and g in c.methods:
            out[name] = Member(name, 'alias', c.qual, None, node, g)
            continue
        fg = factory_getter(p, c, v)
        if fg is not None:
            out[name] = Member(name, 'factory', c.qual, fg, node)
            continue
        out[name] = Member(name, 'data', c.qual, None, node)
    return out


_MEMBER_CACHE: Dict[Tuple[int, str], Dict[str, Member]] = {}


def effective_members(p: Project, cq: str) -> Dict[str, Member]:
    """name -> first definition along the MRO (package classes only); aliases
    are resolved to the body that runs, *as seen from cq*."""
    key = (id(p), cq)
    if key in _MEMBER_CACHE:
        return _MEMBER_CACHE[key]
    table: Dict[str, Member] = {}
    for k in p.mro(cq):
        c = p.classes.get(k)
        if c is None:
            continue
        for name, m in own_members(p, c).items():
            table.setdefault(name, m)
    # resolve aliases through the effective table (url = uri -> whichever uri wins)
    for name, m in list(table.items()):
        seen = set()
        cur = m
        while cur.kind == 'alias' and cur.target in table and cur.target not in seen:
            seen.add(cur.target)
            cur = table[cur.target]
        if cur is not m:
            table[name] = Member(name, 'alias', m.owner, cur.func, m.node, m.target)
            table[name].resolved_kind = cur.kind
    _MEMBER_CACHE[key] = table
    return table


def is_public(name: str) -> bool:
    return not name.startswith('_') or (name.startswith('__') and name.endswith('__'))


# ---------------------------------------------------------------------------
# site-tracking, context-sensitive escape analysis
# ---------------------------------------------------------------------------

class SiteEscape(Escape):
    def __init__(self, project: Project, server_keys=None, skip_callees: Optional[Dict[str, str]] = None,
                 use_exemptions: bool = True):
        super().__init__(project)
        self.server_keys = SERVER_KEYS if server_keys is None else server_keys
        self.skip_callees = skip_callees or {}
        self.use_exemptions = use_exemptions
        self._ctx: Dict[str, object] = {}
        self.memo = {}
        # origin key of a constant-key table read -> (table kind, key)
        self.key_sites: Dict[str, Tuple[str, object]] = {}

    # ------------------------------------------------------------ fixpoint
    def summary(self, func: Func, selfcls: Optional[Class] = None, ctx: Optional[Dict[str, object]] = None):
        if selfcls is None:
            selfcls = func_owner_class(func)
        key = self._key(func, selfcls, ctx or {})
        if key in self.stable:
            return self.memo[key]
        res = {}
        for _ in range(24):
            self.changed = False
            self.in_progress.clear()
            self._round_done = set()
            res = self._summ(func, selfcls, ctx or {})
            if not self.changed:
                break
        else:
            raise UnknownIdiom('escape analysis did not converge for %s' % func.qual)
        self.stable.update(self._round_done)
        return res

    @staticmethod
    def _key(func, selfcls, ctx):
        return (func.qual, selfcls.qual if selfcls else None, tuple(sorted(ctx.items())))

    def _summ(self, func: Func, selfcls: Optional[Class], ctx: Optional[Dict[str, object]] = None):
        ctx = ctx or {}
        key = self._key(func, selfcls, ctx)
        if key in self.stable or key in self._round_done:
            return self.memo[key]
        if key in self.in_progress:
            return self.memo.get(key, {})
        self.in_progress.add(key)
        out = {}
        saved_guards, saved_ctx = self._guards, self._ctx
        self._guards, self._ctx = [], ctx
        try:
            self._block(func.node.body, func, selfcls, [], out, caught_ctx=None)
        finally:
            self._guards, self._ctx = saved_guards, saved_ctx
        self.in_progress.discard(key)
        old = self.memo.get(key)
        if old is None or set(old) != set(out):
            self.changed = True
        self.memo[key] = out
        self._round_done.add(key)
        return out

    # ------------------------------------------------------- keys / filters
    def _filter(self, exc: str, handlers) -> bool:
        return super()._filter(split_key(exc)[0], handlers)

    def _add(self, out, exc: str, chain, handlers):
        cls = split_key(exc)[0]
        if not Escape._filter(self, cls, handlers):
            return
        org = chain[-1] if chain else None
        key = cls + SEP + (org.key if isinstance(org, Origin) else '?')
        if key not in out or len(chain) < len(out[key]):
            out[key] = chain

    # ------------------------------------------------------------ statements
    def _block(self, stmts, func, selfcls, handlers, out, caught_ctx):
        pushed = 0
        try:
            for s in stmts:
                self._stmt(s, func, selfcls, handlers, out, caught_ctx)
                if _terminates(s, self._ctx):
                    break
                # `if k not in d: <leave>`: the rest of the block runs with k in d
                if isinstance(s, ast.If) and not s.orelse and _block_terminates(s.body, self._ctx):
                    g = _not_in_guards(s.test)
                    if g:
                        self._guards.append(g)
                        pushed += 1
        finally:
            for _ in range(pushed):
                self._guards.pop()

    def _stmt(self, s, func, selfcls, handlers, out, caught_ctx):
        if isinstance(s, ast.If):
            v = ceval(s.test, self._ctx)
            self._expr(s.test, func, selfcls, handlers, out)
            if v is UNK or v:
                guards = self._guards_of(func, s.test)
                if guards:
                    self._guarded_block(s.body, func, selfcls, handlers, out, caught_ctx, guards)
                else:
                    self._block(s.body, func, selfcls, handlers, out, caught_ctx)
            if v is UNK or not v:
                g = _not_in_guards(s.test) if s.orelse else None
                if g:
                    self._guarded_block(s.orelse, func, selfcls, handlers, out, caught_ctx, g)
                else:
                    self._block(s.orelse, func, selfcls, handlers, out, caught_ctx)
            return
        if isinstance(s, ast.Raise) and s.exc is not None:
            e = s.exc.func if isinstance(s.exc, ast.Call) else s.exc
            if not (isinstance(e, ast.Name) and caught_ctx is not None and e.id == caught_ctx[0]):
                where = func.loc(s)
                q = self.p.resolve_expr(func.module, e, func)
                org = Origin(where, short(s, 100), func.qual, norm(s))
                if q and (q in self.p.classes or q.startswith('builtins.')):
                    self._add(out, q, [org], handlers)
                else:
                    self._add(out, '?' + short(e, 60), [org], handlers)
                if isinstance(s.exc, ast.Call):
                    for a in list(s.exc.args) + [k.value for k in s.exc.keywords]:
                        self._expr(a, func, selfcls, handlers, out)
                return
        if isinstance(s, ast.Assign):
            for t in s.targets:
                if isinstance(t, (ast.Tuple, ast.List)) and _is_split_call(s.value):
                    self._prim(out, 'builtins.ValueError', func, s, handlers, 'tuple-unpacking of split()')
            self._expr(s.value, func, selfcls, handlers, out)
            for t in s.targets:
                self._expr(t, func, selfcls, handlers, out, store=True)
            return
        super()._stmt(s, func, selfcls, handlers, out, caught_ctx)

    def _guards_of(self, func, test):
        """`k in d` facts of the true branch, with table aliases as written."""
        return _in_guards(test)

    # --------------------------------------------------------------- sites
    def _prim(self, out, exc, func, node, handlers, why):
        cons = norm(node)
        reason = self._exempt(func, node, exc) if self.use_exemptions else None
        if reason is not None:
            self.exempt_used['%s :: %s' % (func.qual, cons)] = reason
            return
        self.sites_seen += 1
        org = Origin(func.loc(node), '%s  [%s]' % (short(node, 90), why), func.qual, cons)
        self._add(out, exc, [org], handlers)

    def _exempt(self, func: Func, node, exc: str) -> Optional[str]:
        """Checked exemptions: the side condition is evaluated on every run."""
        if isinstance(node, ast.Call):
            f = node.func
            # int(<server-produced value>)
            if exc == 'builtins.ValueError' and isinstance(f, ast.Name) and f.id == 'int' and len(node.args) == 1:
                hit: List[str] = []

                def pred(e):
                    r = is_table_read(func, e, SERVER_VALUES)
                    if r:
                        hit.append(r)
                    return bool(r)

                if derives_only_from(func, node.args[0], pred, use_site=node):
                    return hit[0]
            if isinstance(f, ast.Attribute) and f.attr == 'encode' and exc == 'builtins.UnicodeEncodeError':
                codec, _ = _codec_args(node)
                if codec is not None and codec.lower() in TOTAL_CODECS:
                    hit = []

                    def pred2(e):
                        r = is_table_read(func, e, LATIN1_TUNNELLED)
                        if r:
                            hit.append(r)
                        return bool(r)

                    if derives_only_from(func, f.value, pred2, use_site=node):
                        return hit[0]
                    # receiver built only from an application-supplied parameter
                    names = {x.id for x in walk_self(f.value) if isinstance(x, ast.Name)}
                    if len(names) == 1:
                        r = APP_SUPPLIED_PARAMS.get((func.qual, next(iter(names))))
                        if r and next(iter(names)) in func.params() and next(iter(names)) not in assignments(func):
                            return r
        return None

    # ----------------------------------------------------------- subscripts
    def _module_table(self, func: Func, expr) -> Optional[str]:
        """qualified name if expr names a module-level dict literal/comprehension."""
        if not isinstance(expr, ast.Name):
            return None
        q = self.p.resolve_expr(func.module, expr, func)
        if not q:
            return None
        head, _, tail = q.rpartition('.')
        m = self.p.modules.get(head)
        if m is None or tail not in m.consts:
            return None
        v = m.consts[tail]
        if isinstance(v, (ast.Dict, ast.DictComp)):
            return q
        if isinstance(v, ast.Call) and isinstance(v.func, ast.Name) and v.func.id == 'dict':
            return q
        return None

    def _subscript(self, n: ast.Subscript, func, handlers, out):
        t = table_of(func, n.value)
        if t is None:
            mt = self._module_table(func, n.value)
            if mt is None or isinstance(n.slice, ast.Slice):
                return
            if isinstance(n.slice, ast.Constant):
                return  # constant key of a constant table: decided by the table, not by the client
            ktxt = short(n.slice)
            for g in self._guards:
                if (ktxt, n.value.id) in g:
                    return
            self._prim(out, 'builtins.KeyError', func, n, handlers, 'unguarded lookup in module table %s' % mt)
            return
        kind, ch = t
        k = const_key(n.slice)
        if k is not UNK and self.use_exemptions and (kind, k) in self.server_keys:
            self.exempt_used['%s[%r]' % (kind, k)] = self.server_keys[(kind, k)]
            return
        ktxt = short(n.slice)
        for g in self._guards:
            if (ktxt, '.'.join(ch)) in g:
                return
        if k is not UNK:
            self.key_sites['%s :: %s' % (func.qual, norm(n))] = (kind, k)
        self._prim(out, 'builtins.KeyError', func, n, handlers, 'unguarded request-table lookup')

    # ---------------------------------------------------------- attr reads
    def _member_for(self, rc: str, name: str) -> Optional[Member]:
        return effective_members(self.p, rc).get(name)

    def _attr_read(self, n: ast.Attribute, func, selfcls, handlers, out):
        rc = self._receiver_class(n.value, func, selfcls)
        if rc is None:
            return
        m = self._member_for(rc, n.attr)
        if m is None or m.func is None:
            return
        kind = getattr(m, 'resolved_kind', m.kind)
        if kind in ('property', 'factory'):
            self.calls_resolved += 1
            sub = self._summ(m.func, self.p.classes.get(rc), {})
            for exc, chain in sub.items():
                self._add(out, exc, [(func.loc(n), 'read of property %s' % short(n, 60))] + chain, handlers)

    # --------------------------------------------------------------- calls
    def _merge(self, out, target: Func, cls, call, func, handlers, bound):
        if target.qual in self.skip_callees:
            self.exempt_used['call %s' % target.qual] = self.skip_callees[target.qual]
            return
        self.calls_resolved += 1
        ctx = call_context(self._ctx, call, target, bound)
        sub = self._summ(target, cls, ctx)
        self._merge_call(out, sub, func, call, handlers)

    def _call(self, n: ast.Call, func, selfcls, handlers, out):
        f = n.func
        target = None
        if isinstance(f, ast.Attribute):
            rc = self._receiver_class(f.value, func, selfcls)
            if rc is not None:
                m = self._member_for(rc, f.attr)
                if m is not None and m.func is not None and getattr(m, 'resolved_kind', m.kind) == 'method':
                    self._merge(out, m.func, self.p.classes.get(rc), n, func, handlers, bound=True)
                    return
        t = self.p.resolve_callable(func, f)
        if isinstance(t, Func):
            sc = selfcls if (t.cls is not None and selfcls is not None and self.p.is_subclass(selfcls.qual, t.cls.qual)) else func_owner_class(t)
            bound = t.cls is not None and isinstance(f, ast.Attribute) and 'staticmethod' not in t.decorators
            self._merge(out, t, sc, n, func, handlers, bound)
            return
        if isinstance(t, Class):
            init = self.p.constructor(t)
            self.calls_resolved += 1
            if init is not None:
                self._merge(out, init, t, n, func, handlers, bound=True)
            return
        if isinstance(t, str):
            # conditional module alias: X = a if COND else b
            alts = self._alias_alternatives(t)
            if alts:
                for g in alts:
                    self._merge(out, g, func_owner_class(g), n, func, handlers, bound=False)
                return
        # strict decode / encode primitives (receiver is not a package function)
        if isinstance(f, ast.Attribute) and f.attr in ('decode', 'encode'):
            codec, errors = _codec_args(n)
            if errors in (None, 'strict'):
                if f.attr == 'decode' and (codec is None or codec.lower() not in TOTAL_CODECS):
                    self._prim(out, 'builtins.UnicodeDecodeError', func, n, handlers, 'strict bytes.decode')
                elif f.attr == 'encode' and codec is not None and codec.lower() not in UTF_CODECS:
                    self._prim(out, 'builtins.UnicodeEncodeError', func, n, handlers, 'strict str.encode to a non-UTF codec')
        if isinstance(f, ast.Attribute) and f.attr in PRIM_METHODS and not isinstance(t, str):
            for exc in PRIM_METHODS[f.attr]:
                self._prim(out, exc, func, n, handlers, 'conversion primitive .%s()' % f.attr)
            return
        self.calls_external += 1
        if isinstance(t, str) and t in PRIM_CALLS:
            if n.args and all(isinstance(a, ast.Constant) for a in n.args):
                return
            if t == 'builtins.int' and n.args and _is_total_int_arg(n.args[0]):
                return
            for exc in PRIM_CALLS[t]:
                self._prim(out, exc, func, n, handlers, 'conversion primitive %s()' % t.split('.')[-1])

    def _alias_alternatives(self, q: str) -> List[Func]:
        head, _, tail = q.rpartition('.')
        m = self.p.modules.get(head)
        if m is None or tail not in m.consts:
            return []
        v = m.consts[tail]
        if isinstance(v, ast.IfExp):
            res = []
            for e in (v.body, v.orelse):
                q2 = self.p.resolve_expr(m, e)
                if q2 in self.p.funcs:
                    res.append(self.p.funcs[q2])
                else:
                    return []
            return res
        return []


# ---------------------------------------------------------------------------
# HTTP status of an error class
# ---------------------------------------------------------------------------

HTTP_ERROR = 'falcon.http_error.HTTPError'


def http_status_of(p: Project, cq: str) -> Optional[int]:
    """Status code an HTTPError subclass is constructed with: the first class
    along the MRO whose __init__ passes a folded status as first positional
    argument to super().__init__."""
    if p.is_subclass(cq, HTTP_ERROR) is not True:
        return None
    for k in p.mro(cq):
        c = p.classes.get(k)
        if c is None or k == HTTP_ERROR:
            continue
        init = c.methods.get('__init__')
        if init is None:
            continue
        for n in walk_no_nested(init.node):
            if (isinstance(n, ast.Call) and isinstance(n.func, ast.Attribute) and n.func.attr == '__init__'
                    and isinstance(n.func.value, ast.Call) and isinstance(n.func.value.func, ast.Name)
                    and n.func.value.func.id == 'super' and n.args and not isinstance(n.args[0], ast.Starred)):
                v = p.fold(c.module, n.args[0], c, init)
                if isinstance(v, str) and v[:3].isdigit():
                    return int(v[:3])
                if isinstance(v, int):
                    return v
    return None


def is_4xx(p: Project, exc: str) -> bool:
    st = http_status_of(p, exc)
    return st is not None and 400 <= st <= 499


# ---------------------------------------------------------------------------
# dominance facts
# ---------------------------------------------------------------------------

def branch_facts(cfg: CFG, nid: int) -> List[Tuple[ast.AST, bool]]:
    """(test expression, outcome) for every branch test whose outcome is fixed
    on all paths entry -> nid."""
    out = []
    for t in cfg.live_nodes():
        if t.kind != 'test' or t.id == nid:
            continue
        for lab, truth in (('T', True), ('F', False)):
            edges = flow.edges_out(cfg, t.id, lab)
            if edges and nid not in flow.reachable(cfg, [cfg.entry], avoid_edges=edges):
                out.append((t.ast, truth))
    return out


def fact_value(cfg: CFG, nid: int, atom: Callable[[ast.AST], bool]) -> Optional[bool]:
    """Truth of `atom` implied by the branch facts dominating nid (None if none)."""
    for test, truth in branch_facts(cfg, nid):
        r = implied(test, truth, atom)
        if r is not None:
            return r
    return None


def polar(test, truth: bool, classify: Callable[[ast.AST], int]) -> Optional[bool]:
    """Truth of a proposition P given that `test` evaluated to `truth`;
    classify(e) is +1 if e asserts P, -1 if e asserts not-P, 0 otherwise."""
    c = classify(test)
    if c:
        return truth if c > 0 else (not truth)
    if isinstance(test, ast.UnaryOp) and isinstance(test.op, ast.Not):
        return polar(test.operand, not truth, classify)
    if isinstance(test, ast.BoolOp):
        if (isinstance(test.op, ast.And) and truth) or (isinstance(test.op, ast.Or) and not truth):
            for v in test.values:
                r = polar(v, truth, classify)
                if r is not None:
                    return r
    return None


def polar_fact(cfg: CFG, nid: int, classify: Callable[[ast.AST], int]) -> Optional[bool]:
    for test, truth in branch_facts(cfg, nid):
        r = polar(test, truth, classify)
        if r is not None:
            return r
    return None


def node_of(cfg: CFG, astnode) -> int:
    """CFG node whose own expressions contain astnode."""
    for n in cfg.live_nodes():
        if n.copy:
            continue
        for x in n.walk():
            if x is astnode:
                return n.id
    raise AnchorError('%s: no CFG node for %s' % (cfg.func.qual, short(astnode, 60)))


def nodes_of(cfg: CFG, astnode) -> List[int]:
    return [n.id for n in cfg.live_nodes() if any(x is astnode for x in n.walk())]


# ---------------------------------------------------------------------------
# header-key normalisation (E8)
# ---------------------------------------------------------------------------

def norm_header_key(kind: str, key) -> Optional[str]:
    """Canonical lower-case header name for a table key, None for non-header keys."""
    if kind == 'environ' and isinstance(key, str):
        if key.startswith('HTTP_'):
            return key[5:].replace('_', '-').lower()
        if key in ('CONTENT_TYPE', 'CONTENT_LENGTH'):
            return key.replace('_', '-').lower()
        return None
    if kind == 'asgi-headers':
        if isinstance(key, bytes):
            return key.decode('latin1').lower()
        if isinstance(key, str):
            return key.lower()
    return None


# ---------------------------------------------------------------------------
# reaching definitions of local names (may-analysis over the CFG)
# ---------------------------------------------------------------------------

class Def:
    """One binding of a local name: value is the bound expression, or None
    with `how` telling what bound it ('param', 'for', 'unpack:<i>', 'aug', ...);
    for tuple unpacking `src` is the unpacked expression and `index` the position."""

    def __init__(self, name, value, how, stmt, src=None, index=None):
        self.name = name
        self.value = value
        self.how = how
        self.stmt = stmt
        self.src = src
        self.index = index

    def __repr__(self):
        return '<Def %s %s %s>' % (self.name, self.how, short(self.value, 40) if self.value is not None else short(self.src, 40) if self.src is not None else '')


def _bind_targets(t, v, stmt, out: List[Def]):
    if isinstance(t, ast.Name):
        out.append(Def(t.id, v, 'assign', stmt))
    elif isinstance(t, (ast.Tuple, ast.List)):
        if isinstance(v, (ast.Tuple, ast.List)) and len(v.elts) == len(t.elts):
            for te, ve in zip(t.elts, v.elts):
                _bind_targets(te, ve, stmt, out)
        else:
            for i, te in enumerate(t.elts):
                if isinstance(te, ast.Name):
                    out.append(Def(te.id, None, 'unpack', stmt, src=v, index=i))
                elif isinstance(te, ast.Starred) and isinstance(te.value, ast.Name):
                    out.append(Def(te.value.id, None, 'unpack*', stmt, src=v, index=i))
                elif isinstance(te, (ast.Tuple, ast.List)):
                    _bind_targets(te, None, stmt, out)


def node_defs(n) -> List[Def]:
    """Definitions made by one CFG node (on its normal out-edges)."""
    out: List[Def] = []
    if n.kind == 'stmt':
        a = n.ast
        if isinstance(a, ast.Assign):
            for t in a.targets:
                _bind_targets(t, a.value, a, out)
        elif isinstance(a, ast.AnnAssign) and a.value is not None:
            _bind_targets(a.target, a.value, a, out)
        elif isinstance(a, ast.AugAssign) and isinstance(a.target, ast.Name):
            out.append(Def(a.target.id, None, 'aug', a, src=a.value))
    elif n.kind == 'iter':
        t = n.stmt.target
        if isinstance(t, ast.Name):
            out.append(Def(t.id, None, 'for', n.stmt, src=n.stmt.iter))
        else:
            _bind_targets(t, None, n.stmt, out)
            for d in out:
                d.how = 'for-unpack'
                d.src = n.stmt.iter
    elif n.kind == 'with':
        for it in n.stmt.items:
            if it.optional_vars is not None:
                _bind_targets(it.optional_vars, None, n.stmt, out)
    elif n.kind == 'handler' and n.ast.name:
        out.append(Def(n.ast.name, None, 'except', n.ast))
    if n.kind in ('stmt', 'test', 'iter', 'with'):
        # `(name := value)` anywhere in the node's own expressions binds name in the function (also from inside a comprehension)
        for x in n.walk():
            if isinstance(x, ast.NamedExpr) and isinstance(x.target, ast.Name) and not any(d.name == x.target.id for d in out):
                out.append(Def(x.target.id, x.value, 'assign', n.ast if isinstance(n.ast, ast.stmt) else x))
    return out


class ReachingDefs:
    def __init__(self, cfg: CFG):
        self.cfg = cfg
        f = cfg.func
        self.defs: List[Def] = []
        self.by_node: Dict[int, List[int]] = {}
        for name in f.params():
            self.defs.append(Def(name, None, 'param', f.node))
        n_params = len(self.defs)
        for n in cfg.live_nodes():
            ds = node_defs(n)
            if ds:
                ids = []
                for d in ds:
                    ids.append(len(self.defs))
                    self.defs.append(d)
                self.by_node[n.id] = ids
        init = frozenset(range(n_params))

        def transfer(node, facts, label):
            ids = self.by_node.get(node.id)
            if not ids or label == 'exc':
                return facts
            if node.kind == 'iter' and label != 'next':
                return facts
            names = {self.defs[i].name for i in ids}
            # an augmented assignment keeps nothing of the old value either
            return frozenset(i for i in facts if self.defs[i].name not in names) | frozenset(ids)

        self.IN = flow.forward(cfg, transfer, init, must=False)

    def at(self, nid: int, name: str) -> List[Def]:
        return [self.defs[i] for i in sorted(self.IN.get(nid, ())) if self.defs[i].name == name]


def callable_alias(func: Func, e, depth: int = 0):
    """The expression a local callable alias stands for: `e` is a local of `func` (no parameter, not touched by a nested
    definition) with exactly one binding, a plain `name = <Name | Attribute>` (`_decode = decode`, `enc = uri.encode_value`).
    None when e is no such local."""
    if not isinstance(e, ast.Name) or depth > 2 or e.id in func.params():
        return None
    stores = [x for x in ast.walk(func.node) if isinstance(x, ast.Name) and x.id == e.id and isinstance(x.ctx, (ast.Store, ast.Del))]
    binds = [x for x in walk_no_nested(func.node) if isinstance(x, ast.Assign) and len(x.targets) == 1
             and isinstance(x.targets[0], ast.Name) and x.targets[0].id == e.id]
    if len(stores) != 1 or len(binds) != 1 or not isinstance(binds[0].value, (ast.Name, ast.Attribute)):
        return None
    if any(isinstance(x, (ast.Global, ast.Nonlocal)) and e.id in x.names for x in ast.walk(func.node)):
        return None
    return binds[0].value


def resolves_to(p: Project, func: Func, call: ast.Call, qual: str) -> bool:
    fexpr = call.func
    for _ in range(3):
        t = p.resolve_callable(func, fexpr) if isinstance(fexpr, (ast.Name, ast.Attribute)) else None
        if t is not None:
            break
        fexpr = callable_alias(func, fexpr)      # `_decode = decode` ... `_decode(k)`
        if fexpr is None:
            return False
    if isinstance(t, Func):
        return t.qual == qual
    return t == qual


def concat_parts(e) -> List[ast.AST]:
    """The operands of a `+` chain, left to right; an f-string counts as the concatenation of its literal pieces and its
    plain `{expr}` fields (a field with a conversion or a format spec stays one opaque part: the f-string is not split)."""
    if isinstance(e, ast.BinOp) and isinstance(e.op, ast.Add):
        return concat_parts(e.left) + concat_parts(e.right)
    if isinstance(e, ast.JoinedStr) and e.values and all(
            isinstance(v, ast.Constant) or (isinstance(v, ast.FormattedValue) and v.conversion == -1 and v.format_spec is None) for v in e.values):
        out = []
        for v in e.values:
            out.extend([v] if isinstance(v, ast.Constant) else concat_parts(v.value))
        return out
    return [e]


def raises_on(cfg: CFG, edges) -> bool:
    """Every continuation over these edges ends exceptionally (no normal exit)."""
    starts = [b for (_a, b, _l) in edges]
    return bool(starts) and cfg.exit not in flow.reachable(cfg, starts)


# ---------------------------------------------------------------------------
# result kinds of a plain header accessor (C06 R2(d), restricted)
# ---------------------------------------------------------------------------
#
# A *plain header accessor* is a getter whose body is: table lookups of one
# request-header table (`T[k]`, `T.get(k[, d])`, `k in T`), `.decode(..)` of the
# looked-up value, constants, factory-bound constants, `or`/`and`/`not`/
# `is None` / conditional expressions over those, plain local assignments,
# `if` over such tests, `try/except KeyError` and `return`.  For such a getter
# the result is a function of the *input class* of the header alone
#   missing | blank (present, empty string) | non-blank
# and is one of
#   ('none',) | ('const', c) | ('value',) | ('raises', 'KeyError').
# Anything else is `Unreadable` (an UnknownIdiom): never guessed.

HEADER_INPUTS = ('missing', 'blank', 'non-blank')
K_NONE = ('none',)
K_VALUE = ('value',)
_DERIVED = ('derived',)  # a factory local computed from the header name: usable as a table key only


class Unreadable(UnknownIdiom):
    """The getter is not a plain header accessor."""


class _HeaderMissing(Exception):
    pass


def factory_bindings(p: Project, c: Class, call) -> Tuple[Func, Func, Dict[str, tuple]]:
    """(factory, getter, name -> abstract value) for a class-level
    `name = factory(<constant arguments>)` whose factory returns
    `property(<nested getter>)`: parameters are bound to the call's constant
    arguments (or their constant defaults); other factory locals are `derived`."""
    if not isinstance(call, ast.Call):
        raise Unreadable('factory property: not a call: %s' % short(call))
    q = p.resolve_expr(c.module, call.func)
    fac = p.funcs.get(q) if q else None
    getter = factory_getter(p, c, call)
    if fac is None or getter is None:
        raise Unreadable('factory property: %s does not resolve to a property factory' % short(call.func))
    a = fac.node.args
    if a.vararg is not None or a.kwarg is not None or any(isinstance(x, ast.Starred) for x in call.args) or any(k.arg is None for k in call.keywords):
        raise Unreadable('%s: star arguments' % fac.qual)
    pos = [x.arg for x in list(a.posonlyargs) + list(a.args)]
    given: Dict[str, Tuple[ast.AST, object]] = {}
    if len(call.args) > len(pos):
        raise Unreadable('%s: too many positional arguments in %s' % (fac.qual, short(call)))
    for nm, e in zip(pos, call.args):
        given[nm] = (e, 'call')
    allnames = set(pos) | {x.arg for x in a.kwonlyargs}
    for k in call.keywords:
        if k.arg not in allnames or k.arg in given:
            raise Unreadable('%s: keyword %s in %s' % (fac.qual, k.arg, short(call)))
        given[k.arg] = (k.value, 'call')
    for nm, d in zip(pos[len(pos) - len(a.defaults):], a.defaults):
        given.setdefault(nm, (d, 'default'))
    for x, d in zip(a.kwonlyargs, a.kw_defaults):
        if d is not None:
            given.setdefault(x.arg, (d, 'default'))
    env: Dict[str, tuple] = {}
    for nm in allnames:
        if nm not in given:
            raise Unreadable('%s: parameter %s is not bound by %s' % (fac.qual, nm, short(call)))
        e, src = given[nm]
        v = p.fold(c.module, e, c) if src == 'call' else p.fold(fac.module, e)
        if v is UNKNOWN:
            raise Unreadable('%s: argument %s=%s is not a constant' % (fac.qual, nm, short(e)))
        env[nm] = K_NONE if v is None else ('const', v)
    for n in walk_no_nested(fac.node):
        if isinstance(n, ast.Name) and isinstance(n.ctx, (ast.Store, ast.Del)):
            if n.id in env and env[n.id] is not _DERIVED:
                raise Unreadable('%s rebinds its parameter %s' % (fac.qual, n.id))
            env[n.id] = _DERIVED
    return fac, getter, env


class _GetterEval:
    CATCH_ALL = {'KeyError', 'LookupError', 'Exception', 'BaseException'}

    def __init__(self, getter: Func, env: Dict[str, tuple], inp: str):
        self.f = getter
        self.env = env
        self.inp = inp
        self.tables: Set[str] = set()

    def bad(self, what, node=None):
        raise Unreadable('%s: %s%s' % (self.f.qual, what, (' ' + short(node, 70)) if node is not None else ''))

    def is_table(self, e) -> bool:
        t = table_of(self.f, e)
        if t is not None and t[0] in ('environ', 'asgi-headers'):
            self.tables.add(t[0])
            return True
        return False

    def key(self, e, loc):
        if isinstance(e, ast.Constant) and isinstance(e.value, (str, bytes)):
            return
        if isinstance(e, ast.Name) and e.id not in loc and e.id in self.env and self.env[e.id] is not K_NONE:
            return
        self.bad('table key', e)

    def truthy(self, v) -> bool:
        if v == K_NONE:
            return False
        if v == K_VALUE:
            return self.inp == 'non-blank'
        return bool(v[1])

    def ev(self, e, loc):
        if isinstance(e, ast.Constant):
            return K_NONE if e.value is None else ('const', e.value)
        if isinstance(e, ast.Name):
            if e.id in loc:
                return loc[e.id]
            v = self.env.get(e.id)
            if v is None or v is _DERIVED:
                self.bad('free name', e)
            return v
        if isinstance(e, ast.Subscript) and isinstance(e.ctx, ast.Load) and self.is_table(e.value):
            self.key(e.slice, loc)
            if self.inp == 'missing':
                raise _HeaderMissing()
            return K_VALUE
        if isinstance(e, ast.Call) and isinstance(e.func, ast.Attribute) and not e.keywords:
            fn = e.func
            if fn.attr == 'get' and 1 <= len(e.args) <= 2 and self.is_table(fn.value):
                self.key(e.args[0], loc)
                if self.inp == 'missing':
                    return self.ev(e.args[1], loc) if len(e.args) == 2 else K_NONE
                return K_VALUE
            if fn.attr == 'decode' and all(isinstance(x, ast.Constant) for x in e.args):
                v = self.ev(fn.value, loc)
                if v == K_VALUE:
                    return v  # b''.decode(..) == '': blank stays blank
            self.bad('call', e)
        if isinstance(e, ast.BoolOp):
            stop = isinstance(e.op, ast.Or)
            for x in e.values[:-1]:
                v = self.ev(x, loc)
                if self.truthy(v) is stop:
                    return v
            return self.ev(e.values[-1], loc)
        if isinstance(e, ast.IfExp):
            return self.ev(e.body if self.truthy(self.ev(e.test, loc)) else e.orelse, loc)
        if isinstance(e, ast.UnaryOp) and isinstance(e.op, ast.Not):
            return ('const', not self.truthy(self.ev(e.operand, loc)))
        if isinstance(e, ast.Compare) and len(e.ops) == 1:
            op, l, r = e.ops[0], e.left, e.comparators[0]
            if isinstance(op, (ast.Is, ast.IsNot)) and isinstance(r, ast.Constant) and r.value is None:
                res = self.ev(l, loc) == K_NONE
                return ('const', res if isinstance(op, ast.Is) else not res)
            if isinstance(op, (ast.In, ast.NotIn)) and self.is_table(r):
                self.key(l, loc)
                res = self.inp != 'missing'
                return ('const', res if isinstance(op, ast.In) else not res)
        self.bad('expression', e)

    def catches(self, h: ast.ExceptHandler) -> bool:
        if h.type is None:
            return True
        ts = h.type.elts if isinstance(h.type, ast.Tuple) else [h.type]
        if not all(isinstance(t, ast.Name) for t in ts):
            self.bad('handler type', h.type)
        return any(t.id in self.CATCH_ALL for t in ts)

    def run(self, stmts, loc):
        for s in stmts:
            if isinstance(s, ast.Pass) or (isinstance(s, ast.Expr) and isinstance(s.value, ast.Constant)):
                continue
            if isinstance(s, ast.Return):
                return ('return', self.ev(s.value, loc) if s.value is not None else K_NONE)
            if isinstance(s, ast.Assign) and len(s.targets) == 1 and isinstance(s.targets[0], ast.Name):
                loc[s.targets[0].id] = self.ev(s.value, loc)
                continue
            if isinstance(s, ast.AnnAssign) and isinstance(s.target, ast.Name):
                if s.value is not None:
                    loc[s.target.id] = self.ev(s.value, loc)
                continue
            if isinstance(s, ast.If):
                r = self.run(s.body if self.truthy(self.ev(s.test, loc)) else s.orelse, loc)
                if r is not None:
                    return r
                continue
            if isinstance(s, ast.Try) and not s.finalbody:
                try:
                    r = self.run(s.body, loc)
                except _HeaderMissing:
                    hs = [h for h in s.handlers if self.catches(h)]
                    if not hs:
                        raise
                    if hs[0].name:
                        self.bad('handler binds the exception', hs[0])
                    r = self.run(hs[0].body, loc)
                else:
                    if r is None:
                        r = self.run(s.orelse, loc)
                if r is not None:
                    return r
                continue
            self.bad('statement %s' % type(s).__name__, s)
        return None


def header_getter_kinds(p: Project, getter: Func, env: Optional[Dict[str, tuple]] = None) -> Dict[str, tuple]:
    """input class -> result kind of a plain header accessor; `Unreadable`
    when the getter has any other shape."""
    if getter.is_async or len(getter.params()) != 1:
        raise Unreadable('%s: not a one-argument synchronous getter' % getter.qual)
    out: Dict[str, tuple] = {}
    tables: Set[str] = set()
    for inp in HEADER_INPUTS:
        ge = _GetterEval(getter, env or {}, inp)
        try:
            r = ge.run(getter.node.body, {})
            v = r[1] if r is not None else K_NONE
        except _HeaderMissing:
            v = ('raises', 'KeyError')
        if v == K_VALUE and inp == 'blank':
            v = ('const', '')  # the blank header value is the empty string
        out[inp] = v
        tables |= ge.tables
    if len(tables) != 1:
        raise Unreadable('%s: reads %d request-header tables' % (getter.qual, len(tables)))
    return out


def kind_text(k: tuple) -> str:
    if k == K_NONE:
        return 'None'
    if k == K_VALUE:
        return 'the header value'
    if k[0] == 'const':
        return 'the constant %r' % (k[1],)
    return 'raises %s' % k[1]


# ---------------------------------------------------------------------------
# concrete evaluation of a small pure subset over a finite sample domain
# (C06 R14: header mappings; C09 R13: the Forwarded parser)
# ---------------------------------------------------------------------------
#
# A tiny interpreter over the AST: nothing of the analysed package is imported
# or executed.  Values are Python str/bytes/int/bool/None/tuple/list/dict/
# frozenset, compiled `re` patterns and matches, and `CObj` stand-ins for
# instances of package classes.  Only operations that are pure on those values
# are carried out (the methods of the builtin value types, a frozen table of
# builtins, `re.compile`); package functions are interpreted, not called.
# Anything else -- an unknown statement kind, a call the tables do not name, an
# attribute the sample object does not have -- is `Unreadable` (UnknownIdiom):
# the evaluation never guesses.

class CRaise(Exception):
    """The interpreted code raised (or a primitive failed with) this exception class."""

    def __init__(self, cls: str, node=None):
        Exception.__init__(self, cls)
        self.cls = cls
        self.node = node


class _CReturn(Exception):
    def __init__(self, value):
        Exception.__init__(self)
        self.value = value


class _CContinue(Exception):
    pass


class _CBreak(Exception):
    pass


class CObj:
    """Stand-in for an instance of a package class (attributes by name)."""

    __slots__ = ('cq', 'attrs')

    def __init__(self, cq: str, attrs: Optional[Dict[str, object]] = None):
        self.cq = cq
        self.attrs = dict(attrs or {})

    def __repr__(self):
        return '<%s %r>' % (self.cq.rsplit('.', 1)[-1], self.attrs)


class _CBound:
    __slots__ = ('obj', 'func')

    def __init__(self, obj, func):
        self.obj, self.func = obj, func


class _CPrimBound:
    """A bound method of a primitive value read as a value (`match_pair = _PAIR_RE.match`): calling it is the method call."""
    __slots__ = ('recv', 'attr')

    def __init__(self, recv, attr):
        self.recv, self.attr = recv, attr


def _c_stdlib_consts():
    import string
    return {'string.' + n: getattr(string, n) for n in ('digits', 'ascii_letters', 'ascii_lowercase', 'ascii_uppercase', 'hexdigits',
                                                       'octdigits', 'punctuation', 'whitespace', 'printable')}


_C_STDLIB_CONSTS = _c_stdlib_consts()
# builtins that are pure on the value domain
_C_BUILTINS = {n: getattr(__import__('builtins'), n) for n in (
    'len', 'str', 'bytes', 'int', 'bool', 'chr', 'ord', 'tuple', 'list', 'dict', 'set', 'frozenset', 'range', 'sorted', 'reversed',
    'enumerate', 'zip', 'min', 'max', 'any', 'all', 'sum', 'abs', 'repr')}
_C_LIST_METHODS = ('append', 'extend', 'insert', 'pop', 'index', 'count', 'copy', 'reverse', 'clear', 'remove')
_C_DICT_METHODS = ('get', 'items', 'keys', 'values', 'setdefault', 'pop', 'update', 'copy', 'clear')
_C_SET_METHODS = ('add', 'discard', 'union', 'intersection', 'difference', 'issubset', 'issuperset', 'copy')
_C_PATTERN_METHODS = ('match', 'fullmatch', 'search', 'sub', 'subn', 'findall', 'finditer', 'split')
_C_MATCH_METHODS = ('group', 'groups', 'groupdict', 'start', 'end', 'span')
_C_PRIMITIVE_ERRORS = (IndexError, KeyError, ValueError, TypeError, AttributeError, UnicodeError, ZeroDivisionError, OverflowError, StopIteration)
_C_BINOPS = {ast.Add: lambda a, b: a + b, ast.Sub: lambda a, b: a - b, ast.Mult: lambda a, b: a * b, ast.Mod: lambda a, b: a % b,
             ast.FloorDiv: lambda a, b: a // b, ast.BitOr: lambda a, b: a | b, ast.BitAnd: lambda a, b: a & b}
_C_CMPOPS = {ast.Eq: lambda a, b: a == b, ast.NotEq: lambda a, b: a != b, ast.Lt: lambda a, b: a < b, ast.LtE: lambda a, b: a <= b,
             ast.Gt: lambda a, b: a > b, ast.GtE: lambda a, b: a >= b, ast.Is: lambda a, b: a is b, ast.IsNot: lambda a, b: a is not b,
             ast.In: lambda a, b: a in b, ast.NotIn: lambda a, b: a not in b}
_C_VALUE_TYPES = (str, bytes, int, bool, type(None), tuple, list, dict, frozenset, set, range)


class ConcreteEval:
    """Interpret package code on concrete sample values.

    trace: [('test', node, outcome, func qual) | ('assign', stmt, value, func qual) | ('iter', loop/comprehension node, item, func qual)
            | ('setattr', stmt, (obj, name, value), func qual)] in execution order."""

    FUEL = 200000

    def __init__(self, p: Project):
        import re as _re
        self.p = p
        self.re = _re
        self.fuel = self.FUEL
        self.trace: List[tuple] = []
        self._consts: Dict[str, object] = {}
        self._const_active: Set[str] = set()
        self.depth = 0

    # ---- helpers
    def bad(self, f: Optional[Func], what: str, node=None):
        raise Unreadable('%s: concrete evaluation cannot read %s%s' % (f.qual if f is not None else '<module>', what,
                                                                       (': ' + short(node, 80)) if node is not None else ''))

    def tick(self, f):
        self.fuel -= 1
        if self.fuel <= 0:
            self.bad(f, 'a computation this long (step budget exhausted)')

    def prim(self, f, node, fn, *args, **kw):
        """carry out a primitive operation of the value domain; a failure is an exception of the interpreted program"""
        try:
            return fn(*args, **kw)
        except _C_PRIMITIVE_ERRORS as e:
            raise CRaise(type(e).__name__, node)
        except self.re.error:
            self.bad(f, 'a regular expression that does not compile', node)

    def truth(self, f, v, node=None) -> bool:
        if isinstance(v, CObj):
            if self.p.lookup_method(v.cq, '__bool__') is not None or self.p.lookup_method(v.cq, '__len__') is not None:
                self.bad(f, 'the truth value of an object with __bool__/__len__', node)
            return True
        if isinstance(v, _C_VALUE_TYPES) or isinstance(v, (self.re.Pattern, self.re.Match)):
            return bool(v)
        self.bad(f, 'the truth value of %s' % type(v).__name__, node)

    # ---- module-level constants
    def module_const(self, qual: str, f=None, node=None):
        if qual in self._consts:
            return self._consts[qual]
        if qual in _C_STDLIB_CONSTS:
            return _C_STDLIB_CONSTS[qual]
        head, _, tail = qual.rpartition('.')
        m = self.p.modules.get(head)
        if m is None or tail not in m.consts:
            self.bad(f, 'the value of %s' % qual, node)
        if qual in self._const_active:
            self.bad(f, 'the recursively defined constant %s' % qual, node)
        self._const_active.add(qual)
        try:
            v = self.ev(m.consts[tail], {}, None, m)
        finally:
            self._const_active.discard(qual)
        self._consts[qual] = v
        return v

    # ---- names and attributes
    def name(self, e: ast.Name, env, f, m):
        if e.id in env:
            return env[e.id]
        if f is not None and e.id in _locals_of(f):
            raise CRaise('UnboundLocalError', e)
        q = self.p.resolve_expr(m, e, f)
        if q is None:
            self.bad(f, 'the free name %s' % e.id, e)
        return self.qualified(q, f, e)

    def qualified(self, q: str, f, node):
        if q in self.p.funcs:
            return self.p.funcs[q]
        if q in self.p.classes:
            return self.p.classes[q]
        if q.startswith('builtins.'):
            b = q[len('builtins.'):]
            if b in _C_BUILTINS:
                return _C_BUILTINS[b]
            if b in ('setattr', 'getattr', 'hasattr', 'isinstance'):
                return ('builtin', b)
            if b in ('True', 'False', 'None'):
                return {'True': True, 'False': False, 'None': None}[b]
            self.bad(f, 'the builtin %s' % b, node)
        if q == 're.compile':
            return ('builtin', 're.compile')
        return self.module_const(q, f, node)

    def static_qual(self, e: ast.Attribute, env, f, m) -> Optional[str]:
        """qualified name of an attribute chain that denotes a module-level thing (function, class, constant, tabled
        stdlib name); None when it is an attribute / method of a value."""
        ch = attr_chain(e)
        if ch is None or ch[0] in env or (f is not None and ch[0] in _locals_of(f)):
            return None
        q = self.p.resolve_expr(m, e, f)
        if q is None:
            return None
        if q in self.p.funcs or q in self.p.classes or q in _C_STDLIB_CONSTS or q == 're.compile':
            return q
        head, _, tail = q.rpartition('.')
        if head in self.p.modules and tail in self.p.modules[head].consts:
            return q
        if head in self.p.classes:
            return None
        return None

    def getattr(self, obj, name: str, f, node):
        if isinstance(obj, CObj):
            meth = self.p.lookup_method(obj.cq, name)
            if meth is not None and meth.is_property():
                return self.call_func(meth, [obj], {}, node)
            if name in obj.attrs:
                return obj.attrs[name]
            if meth is not None:
                if meth.decorators:
                    self.bad(f, 'the decorated method %s' % meth.qual, node)
                return _CBound(obj, meth)
            owner, expr = self.p.lookup_class_attr(obj.cq, name)
            if owner is not None:
                return self.ev(expr, {}, None, owner.module)
            raise CRaise('AttributeError', node)
        if isinstance(obj, (str, bytes, list, tuple, dict, set, frozenset, self.re.Pattern, self.re.Match)) and not name.startswith('_') \
                and callable(getattr(obj, name, None)):
            return _CPrimBound(obj, name)     # which methods may be called is decided at the call (method())
        self.bad(f, 'attribute %s of %s' % (name, type(obj).__name__), node)

    # ---- expressions
    def ev(self, e, env, f, m=None):
        self.tick(f)
        m = m if m is not None else f.module
        E = lambda x: self.ev(x, env, f, m)  # noqa: E731
        if isinstance(e, ast.Constant):
            return e.value
        if isinstance(e, ast.Name):
            return self.name(e, env, f, m)
        if isinstance(e, ast.Attribute):
            q = self.static_qual(e, env, f, m)
            if q is not None:
                return self.qualified(q, f, e)
            return self.getattr(E(e.value), e.attr, f, e)
        if isinstance(e, (ast.Tuple, ast.List, ast.Set)):
            if any(isinstance(x, ast.Starred) for x in e.elts):
                self.bad(f, 'a starred display', e)
            vals = [E(x) for x in e.elts]
            return tuple(vals) if isinstance(e, ast.Tuple) else list(vals) if isinstance(e, ast.List) else self.prim(f, e, set, vals)
        if isinstance(e, ast.Dict):
            if any(k is None for k in e.keys):
                self.bad(f, 'a dict display with **', e)
            out = {}
            for k, v in zip(e.keys, e.values):
                kk = E(k)
                self.prim(f, e, out.__setitem__, kk, E(v))
            return out
        if isinstance(e, ast.JoinedStr):
            parts = []
            for v in e.values:
                if isinstance(v, ast.Constant):
                    parts.append(v.value)
                elif isinstance(v, ast.FormattedValue) and v.format_spec is None and v.conversion in (-1, 115, 114):
                    x = E(v.value)
                    if not isinstance(x, (str, int, bool)):
                        self.bad(f, 'an f-string over %s' % type(x).__name__, e)
                    parts.append(repr(x) if v.conversion == 114 else str(x))
                else:
                    self.bad(f, 'an f-string with a format spec', e)
            return ''.join(parts)
        if isinstance(e, ast.BoolOp):
            stop = isinstance(e.op, ast.Or)
            v = None
            for x in e.values:
                v = E(x)
                t = self.truth(f, v, x)
                self.trace.append(('test', x, t, f.qual if f is not None else ''))
                if t is stop:
                    return v
            return v
        if isinstance(e, ast.UnaryOp):
            v = E(e.operand)
            if isinstance(e.op, ast.Not):
                return not self.truth(f, v, e.operand)
            if isinstance(e.op, ast.USub) and isinstance(v, int):
                return -v
            self.bad(f, 'the unary operator', e)
        if isinstance(e, ast.BinOp):
            op = _C_BINOPS.get(type(e.op))
            a, b = E(e.left), E(e.right)
            if op is None or not (isinstance(a, _C_VALUE_TYPES) and isinstance(b, _C_VALUE_TYPES)):
                self.bad(f, 'the binary operation', e)
            if isinstance(e.op, ast.Mult) and (isinstance(a, int) and isinstance(b, int) and abs(a) + abs(b) > 10 ** 6
                                               or not (isinstance(a, int) and isinstance(b, int)) and max(x for x in (a, b) if isinstance(x, int)) > 4096):
                self.bad(f, 'a repetition this large', e)
            return self.prim(f, e, op, a, b)
        if isinstance(e, ast.Compare):
            left = E(e.left)
            for o, c in zip(e.ops, e.comparators):
                right = E(c)
                fn = _C_CMPOPS.get(type(o))
                if fn is None:
                    self.bad(f, 'the comparison', e)
                if isinstance(left, CObj) or isinstance(right, CObj):
                    if not isinstance(o, (ast.Is, ast.IsNot)):
                        self.bad(f, 'a comparison of objects', e)
                if not self.prim(f, e, fn, left, right):
                    return False
                left = right
            return True
        if isinstance(e, ast.IfExp):
            t = self.truth(f, E(e.test), e.test)
            self.trace.append(('test', e.test, t, f.qual if f is not None else ''))
            return E(e.body if t else e.orelse)
        if isinstance(e, ast.Subscript):
            base = E(e.value)
            if isinstance(e.slice, ast.Slice):
                idx = slice(*[None if x is None else E(x) for x in (e.slice.lower, e.slice.upper, e.slice.step)])
            else:
                idx = E(e.slice)
            if not isinstance(base, (str, bytes, tuple, list, dict, range)):
                self.bad(f, 'a subscript of %s' % type(base).__name__, e)
            return self.prim(f, e, base.__getitem__, idx)
        if isinstance(e, (ast.ListComp, ast.SetComp, ast.GeneratorExp, ast.DictComp)):
            return self.comprehension(e, env, f, m)
        if isinstance(e, ast.Call):
            return self.call(e, env, f, m)
        if isinstance(e, ast.NamedExpr) and isinstance(e.target, ast.Name) and f is not None:
            v = E(e.value)
            env[e.target.id] = v
            self.trace.append(('assign', e, v, f.qual))
            return v
        self.bad(f, 'the expression', e)

    def bind(self, target, value, env, f, m, stmt=None):
        if isinstance(target, ast.Name):
            env[target.id] = value
            return
        if isinstance(target, (ast.Tuple, ast.List)):
            if any(isinstance(x, ast.Starred) for x in target.elts):
                self.bad(f, 'a starred assignment target', target)
            if isinstance(value, (str, bytes, tuple, list, range)) or isinstance(value, type(iter(()))):
                vals = list(value)
            elif isinstance(value, (dict, set, frozenset)):
                vals = list(value)
            else:
                self.bad(f, 'unpacking of %s' % type(value).__name__, target)
            if len(vals) != len(target.elts):
                raise CRaise('ValueError', target)
            for t, v in zip(target.elts, vals):
                self.bind(t, v, env, f, m, stmt)
            return
        if isinstance(target, ast.Attribute):
            obj = self.ev(target.value, env, f, m)
            if not isinstance(obj, CObj):
                self.bad(f, 'an attribute store on %s' % type(obj).__name__, target)
            meth = self.p.lookup_method(obj.cq, target.attr)
            if meth is not None and meth.is_property():
                self.bad(f, 'a store through the property %s' % meth.qual, target)
            obj.attrs[target.attr] = value
            self.trace.append(('setattr', stmt if stmt is not None else target, (obj, target.attr, value), f.qual if f is not None else ''))
            return
        if isinstance(target, ast.Subscript) and not isinstance(target.slice, ast.Slice):
            base = self.ev(target.value, env, f, m)
            if not isinstance(base, (dict, list)):
                self.bad(f, 'a subscript store on %s' % type(base).__name__, target)
            self.prim(f, target, base.__setitem__, self.ev(target.slice, env, f, m), value)
            return
        self.bad(f, 'the assignment target', target)

    def iterate(self, it, f, node):
        if isinstance(it, (str, bytes, tuple, list, range, dict, frozenset, set)):
            return list(it)
        if type(it).__name__ in ('dict_items', 'dict_keys', 'dict_values', 'enumerate', 'zip', 'reversed', 'list_reverseiterator', 'callable_iterator', 'map'):
            return list(it)
        self.bad(f, 'iteration over %s' % type(it).__name__, node)

    def comprehension(self, e, env, f, m):
        out_list: List[object] = []
        out_dict: Dict[object, object] = {}
        if any(isinstance(x, ast.NamedExpr) for x in ast.walk(e)):
            self.bad(f, 'an assignment expression inside a comprehension', e)
        scope = dict(env)
        fq = f.qual if f is not None else ''

        def rec(i):
            if i == len(e.generators):
                if isinstance(e, ast.DictComp):
                    k = self.ev(e.key, scope, f, m)
                    self.prim(f, e, out_dict.__setitem__, k, self.ev(e.value, scope, f, m))
                else:
                    out_list.append(self.ev(e.elt, scope, f, m))
                return
            g = e.generators[i]
            if g.is_async:
                self.bad(f, 'an async comprehension', e)
            for item in self.iterate(self.ev(g.iter, scope, f, m), f, g.iter):
                self.tick(f)
                self.trace.append(('iter', e, item, fq))
                self.bind(g.target, item, scope, f, m)
                ok = True
                for c in g.ifs:
                    t = self.truth(f, self.ev(c, scope, f, m), c)
                    self.trace.append(('test', c, t, fq))
                    if not t:
                        ok = False
                        break
                if ok:
                    rec(i + 1)

        rec(0)
        if isinstance(e, ast.DictComp):
            return out_dict
        if isinstance(e, ast.SetComp):
            return self.prim(f, e, set, out_list)
        return out_list  # a generator expression is consumed by its (pure) consumer: a list is the same sequence

    def call(self, c: ast.Call, env, f, m):
        if any(isinstance(a, ast.Starred) for a in c.args) or any(k.arg is None for k in c.keywords):
            self.bad(f, 'star-arguments', c)
        fn = c.func
        E = lambda x: self.ev(x, env, f, m)  # noqa: E731
        # method of a value
        if isinstance(fn, ast.Attribute) and self.static_qual(fn, env, f, m) is None:
            recv = E(fn.value)
            args = [E(a) for a in c.args]
            kw = {k.arg: E(k.value) for k in c.keywords}
            return self.method(recv, fn.attr, args, kw, f, c)
        callee = E(fn)
        args = [E(a) for a in c.args]
        kw = {k.arg: E(k.value) for k in c.keywords}
        return self.apply(callee, args, kw, f, c)

    def method(self, recv, attr, args, kw, f, node):
        if isinstance(recv, CObj):
            return self.apply(self.getattr(recv, attr, f, node), args, kw, f, node)
        ok = False
        if isinstance(recv, (str, bytes)):
            ok = not attr.startswith('_') and hasattr(recv, attr)
            if attr in ('join',) and args:
                args = [self.iterate(args[0], f, node)] + args[1:]
            if attr in ('ljust', 'rjust', 'center', 'zfill', 'expandtabs') and any(isinstance(a, int) and a > 4096 for a in args):
                ok = False
        elif isinstance(recv, list):
            ok = attr in _C_LIST_METHODS
        elif isinstance(recv, tuple):
            ok = attr in ('index', 'count')
        elif isinstance(recv, dict):
            ok = attr in _C_DICT_METHODS
        elif isinstance(recv, (set, frozenset)):
            ok = attr in _C_SET_METHODS and (isinstance(recv, set) or attr not in ('add', 'discard'))
        elif isinstance(recv, self.re.Pattern):
            ok = attr in _C_PATTERN_METHODS
            if attr in ('sub', 'subn') and args and not isinstance(args[0], (str, bytes)):
                ok = False
        elif isinstance(recv, self.re.Match):
            ok = attr in _C_MATCH_METHODS
        if not ok:
            self.bad(f, 'the method %s of %s' % (attr, type(recv).__name__), node)
        if not all(self._plain(a) for a in list(args) + list(kw.values())):
            self.bad(f, 'a method call with object arguments', node)
        r = self.prim(f, node, getattr(recv, attr), *args, **kw)
        if attr == 'finditer':
            r = list(r)
        return r

    def _plain(self, v) -> bool:
        if isinstance(v, (list, tuple, set, frozenset)):
            return all(self._plain(x) or isinstance(x, CObj) for x in v)
        if isinstance(v, dict):
            return all(self._plain(x) or isinstance(x, CObj) for x in v.values())
        return isinstance(v, _C_VALUE_TYPES) or isinstance(v, (self.re.Pattern, self.re.Match, CObj))

    def apply(self, callee, args, kw, f, node):
        if isinstance(callee, Func):
            return self.call_func(callee, args, kw, node)
        if isinstance(callee, _CBound):
            return self.call_func(callee.func, [callee.obj] + list(args), kw, node)
        if isinstance(callee, _CPrimBound):
            return self.method(callee.recv, callee.attr, args, kw, f, node)
        if isinstance(callee, Class):
            if callee.qual not in self.p.classes:
                self.bad(f, 'instantiation of %s' % callee.qual, node)
            for k in self.p.mro(callee.qual):
                if k not in self.p.classes and k not in ('builtins.object', 'object'):
                    self.bad(f, 'instantiation of %s (external base %s)' % (callee.qual, k), node)
            if self.p.lookup_method(callee.qual, '__new__') is not None:
                self.bad(f, 'instantiation of %s (__new__)' % callee.qual, node)
            obj = CObj(callee.qual)
            init = self.p.lookup_method(callee.qual, '__init__')
            if init is not None:
                self.call_func(init, [obj] + list(args), kw, node)
            elif args or kw:
                raise CRaise('TypeError', node)
            return obj
        if isinstance(callee, tuple) and len(callee) == 2 and callee[0] == 'builtin':
            b = callee[1]
            if b == 're.compile' and args and isinstance(args[0], (str, bytes)) and all(isinstance(a, int) for a in args[1:]) \
                    and all(k == 'flags' and isinstance(v, int) for k, v in kw.items()):
                return self.prim(f, node, self.re.compile, *args, **kw)
            if b == 'setattr' and len(args) == 3 and isinstance(args[0], CObj) and isinstance(args[1], str) and not kw:
                meth = self.p.lookup_method(args[0].cq, args[1])
                if meth is not None and meth.is_property():
                    self.bad(f, 'a store through the property %s' % meth.qual, node)
                args[0].attrs[args[1]] = args[2]
                self.trace.append(('setattr', node, (args[0], args[1], args[2]), f.qual if f is not None else ''))
                return None
            if b == 'getattr' and len(args) in (2, 3) and isinstance(args[0], CObj) and isinstance(args[1], str) and not kw:
                try:
                    return self.getattr(args[0], args[1], f, node)
                except CRaise as ex:
                    if ex.cls == 'AttributeError' and len(args) == 3:
                        return args[2]
                    raise
            if b == 'hasattr' and len(args) == 2 and isinstance(args[0], CObj) and isinstance(args[1], str) and not kw:
                try:
                    self.getattr(args[0], args[1], f, node)
                    return True
                except CRaise as ex:
                    if ex.cls == 'AttributeError':
                        return False
                    raise
            self.bad(f, 'the call of %s' % b, node)
        if any(callee is b for b in _C_BUILTINS.values()):
            if not all(self._plain(a) for a in list(args) + list(kw.values())):
                self.bad(f, 'a builtin applied to objects', node)
            if callee in (range,) and any(isinstance(a, int) and abs(a) > 10 ** 5 for a in args):
                self.bad(f, 'a range this large', node)
            if callee in (sorted, min, max) and kw:
                self.bad(f, 'a key function', node)
            r = self.prim(f, node, callee, *args, **kw)
            if type(r).__name__ in ('enumerate', 'zip', 'reversed', 'list_reverseiterator'):
                r = list(r)
            return r
        self.bad(f, 'the call', node)

    def call_func(self, g: Func, args, kw, node=None):
        if g.is_async or any(d not in ('property', 'staticmethod', 'classmethod') for d in g.decorators if d != 'property') and not g.is_property():
            self.bad(g, 'the coroutine / decorated function %s' % g.qual, node)
        if any(isinstance(n, (ast.Yield, ast.YieldFrom)) for n in walk_no_nested(g.node)):
            self.bad(g, 'the generator %s' % g.qual, node)
        a = g.node.args
        if a.vararg is not None or a.kwarg is not None:
            self.bad(g, 'the variadic signature of %s' % g.qual, node)
        pos = [x.arg for x in list(a.posonlyargs) + list(a.args)]
        if len(args) > len(pos):
            raise CRaise('TypeError', node)
        env: Dict[str, object] = dict(zip(pos, args))
        names = set(pos) | {x.arg for x in a.kwonlyargs}
        for k, v in kw.items():
            if k not in names or k in env:
                raise CRaise('TypeError', node)
            env[k] = v
        for nm, d in zip(pos[len(pos) - len(a.defaults):], a.defaults):
            if nm not in env:
                env[nm] = self.ev(d, {}, None, g.module)
        for x, d in zip(a.kwonlyargs, a.kw_defaults):
            if x.arg not in env and d is not None:
                env[x.arg] = self.ev(d, {}, None, g.module)
        if set(env) != names:
            raise CRaise('TypeError', node)
        self.depth += 1
        if self.depth > 12:
            self.bad(g, 'a call chain this deep', node)
        try:
            self.run(g.node.body, env, g)
        except _CReturn as r:
            return r.value
        except (_CContinue, _CBreak):
            self.bad(g, 'a stray continue/break', node)
        finally:
            self.depth -= 1
        return None

    # ---- statements
    def run(self, stmts, env, f):
        m = f.module
        fq = f.qual
        for s in stmts:
            self.tick(f)
            if isinstance(s, ast.Pass) or (isinstance(s, ast.Expr) and isinstance(s.value, ast.Constant)):
                continue
            if isinstance(s, ast.Expr):
                self.ev(s.value, env, f, m)
                continue
            if isinstance(s, ast.Return):
                raise _CReturn(self.ev(s.value, env, f, m) if s.value is not None else None)
            if isinstance(s, ast.Assign):
                v = self.ev(s.value, env, f, m)
                self.trace.append(('assign', s, v, fq))
                for t in s.targets:
                    self.bind(t, v, env, f, m, s)
                continue
            if isinstance(s, ast.AnnAssign):
                if s.value is not None:
                    v = self.ev(s.value, env, f, m)
                    self.trace.append(('assign', s, v, fq))
                    self.bind(s.target, v, env, f, m, s)
                continue
            if isinstance(s, ast.AugAssign):
                op = _C_BINOPS.get(type(s.op))
                if op is None or not isinstance(s.target, ast.Name):
                    self.bad(f, 'the augmented assignment', s)
                cur = self.name(s.target, env, f, m)
                v = self.ev(s.value, env, f, m)
                if not (isinstance(cur, _C_VALUE_TYPES) and isinstance(v, _C_VALUE_TYPES)) or isinstance(cur, (list, dict, set)):
                    self.bad(f, 'the augmented assignment', s)
                nv = self.prim(f, s, op, cur, v)
                self.trace.append(('assign', s, nv, fq))
                env[s.target.id] = nv
                continue
            if isinstance(s, ast.If):
                t = self.truth(f, self.ev(s.test, env, f, m), s.test)
                self.trace.append(('test', s.test, t, fq))
                self.run(s.body if t else s.orelse, env, f)
                continue
            if isinstance(s, ast.While):
                broke = False
                while True:
                    self.tick(f)
                    t = self.truth(f, self.ev(s.test, env, f, m), s.test)
                    if not t:
                        break
                    try:
                        self.run(s.body, env, f)
                    except _CContinue:
                        continue
                    except _CBreak:
                        broke = True
                        break
                if not broke:
                    self.run(s.orelse, env, f)
                continue
            if isinstance(s, ast.For):
                broke = False
                for item in self.iterate(self.ev(s.iter, env, f, m), f, s.iter):
                    self.tick(f)
                    self.trace.append(('iter', s, item, fq))
                    self.bind(s.target, item, env, f, m, s)
                    try:
                        self.run(s.body, env, f)
                    except _CContinue:
                        continue
                    except _CBreak:
                        broke = True
                        break
                if not broke:
                    self.run(s.orelse, env, f)
                continue
            if isinstance(s, ast.Continue):
                raise _CContinue()
            if isinstance(s, ast.Break):
                raise _CBreak()
            if isinstance(s, ast.Raise):
                if s.exc is None:
                    self.bad(f, 'a bare re-raise', s)
                ex = s.exc.func if isinstance(s.exc, ast.Call) else s.exc
                q = self.p.resolve_expr(m, ex, f)
                raise CRaise((q or short(ex)).rsplit('.', 1)[-1] if (q or '').startswith('builtins.') else (q or short(ex)), s)
            if isinstance(s, ast.Try):
                self._try(s, env, f)
                continue
            if isinstance(s, ast.Assert):
                continue
            self.bad(f, 'the statement %s' % type(s).__name__, s)

    def _try(self, s: ast.Try, env, f):
        import builtins as _b

        def catches(h, cls: str) -> bool:
            if h.type is None:
                return True
            ts = h.type.elts if isinstance(h.type, ast.Tuple) else [h.type]
            for t in ts:
                q = self.p.resolve_expr(f.module, t, f)
                if q is None:
                    self.bad(f, 'the handler type', t)
                if q.startswith('builtins.'):
                    hb, cb = getattr(_b, q[9:], None), getattr(_b, cls, None)
                    if isinstance(hb, type) and isinstance(cb, type) and issubclass(cb, hb):
                        return True
                    if isinstance(hb, type) and cb is None and hb in (Exception, BaseException):
                        r = self.p.is_subclass(cls, 'builtins.Exception')
                        if r is None:
                            self.bad(f, 'whether %s is caught' % cls, t)
                        if r:
                            return True
                elif cls == q or self.p.is_subclass(cls, q) is True:
                    return True
                elif cls in self.p.classes and self.p.is_subclass(cls, q) is None:
                    self.bad(f, 'whether %s is caught' % cls, t)
            return False

        try:
            try:
                self.run(s.body, env, f)
            except CRaise as ex:
                h = next((h for h in s.handlers if catches(h, ex.cls)), None)
                if h is None:
                    raise
                if h.name:
                    self.bad(f, 'a handler that binds the exception', h)
                self.run(h.body, env, f)
            else:
                self.run(s.orelse, env, f)
        finally:
            if s.finalbody:
                self.run(s.finalbody, env, f)


_LOCALS_CACHE: Dict[int, frozenset] = {}


def _locals_of(f: Func) -> frozenset:
    k = id(f.node)
    if k not in _LOCALS_CACHE:
        from ..model import local_names
        _LOCALS_CACHE[k] = frozenset(local_names(f))
    return _LOCALS_CACHE[k]


# ---------------------------------------------------------------------------
# sequence-length facts (C09 R16): what proves a sequence long enough for an integer index
# ---------------------------------------------------------------------------
# Appended for C09 R16; nothing above uses these.

def _txt(e) -> str:
    return ast.unparse(e)


def _const_len(e) -> Optional[int]:
    """least length of a str/bytes constant, or of the members of a tuple of them (startswith/endswith argument)"""
    if isinstance(e, ast.Constant) and isinstance(e.value, (str, bytes)):
        return len(e.value)
    if isinstance(e, ast.Tuple) and e.elts:
        ls = [_const_len(x) for x in e.elts]
        return None if any(x is None for x in ls) else min(ls)
    return None


def _int_const(e) -> Optional[int]:
    if isinstance(e, ast.Constant) and isinstance(e.value, int) and not isinstance(e.value, bool):
        return e.value
    if isinstance(e, ast.UnaryOp) and isinstance(e.op, ast.USub) and isinstance(e.operand, ast.Constant) \
            and isinstance(e.operand.value, int) and not isinstance(e.operand.value, bool):
        return -e.operand.value
    return None


def _is_len_of(e, base: str, len_aliases=()) -> bool:
    if isinstance(e, ast.Call) and isinstance(e.func, ast.Name) and e.func.id == 'len' and len(e.args) == 1 and not e.keywords:
        return _txt(e.args[0]) == base
    return isinstance(e, ast.Name) and e.id in len_aliases


def _is_part_of(e, base: str) -> bool:
    """e denotes the sequence itself or a slice of it (a slice is never longer than the sequence)"""
    if _txt(e) == base:
        return True
    return isinstance(e, ast.Subscript) and isinstance(e.slice, ast.Slice) and _txt(e.value) == base


_MIRROR = {ast.Lt: ast.Gt, ast.Gt: ast.Lt, ast.LtE: ast.GtE, ast.GtE: ast.LtE, ast.Eq: ast.Eq, ast.NotEq: ast.NotEq}


def _pair_min_len(l, op, r, truth: bool, base: str, len_aliases) -> int:
    # len(base) <op> c
    for a, o, b in ((l, type(op), r), (r, _MIRROR.get(type(op)), l)):
        if o is None:
            continue
        c = _int_const(b)
        if c is not None and _is_len_of(a, base, len_aliases):
            table = {(ast.Gt, True): c + 1, (ast.GtE, True): c, (ast.Lt, False): c, (ast.LtE, False): c + 1, (ast.Eq, True): c, (ast.NotEq, False): c}
            return max(0, table.get((o, truth), 0))
    # <base or a slice of it> == <non-empty constant>   /   != ... is false
    if isinstance(op, (ast.Eq, ast.NotEq)) and truth == isinstance(op, ast.Eq):
        for a, b in ((l, r), (r, l)):
            n = _const_len(b) if isinstance(b, ast.Constant) else None
            if n and _is_part_of(a, base):
                return n
    # <base> != ''   /   == '' is false
    if isinstance(op, (ast.Eq, ast.NotEq)) and truth == isinstance(op, ast.NotEq):
        for a, b in ((l, r), (r, l)):
            if isinstance(b, ast.Constant) and isinstance(b.value, (str, bytes)) and len(b.value) == 0 and _txt(a) == base:
                return 1
    # <non-empty constant> in <base>
    if isinstance(op, (ast.In, ast.NotIn)) and truth == isinstance(op, ast.In) and _txt(r) == base:
        n = _const_len(l) if isinstance(l, ast.Constant) else None
        if n:
            return n
    return 0


def seq_min_len(expr, truth: bool, base: str, len_aliases=()) -> int:
    """Least length of the sequence written `base` that follows from `expr` having evaluated to `truth` (0: nothing known).
    Read: truthiness of the sequence, len() comparisons with integer constants (also through a local that holds len(base)),
    startswith / endswith of non-empty constants, equality of the sequence (or a slice of it) with a non-empty constant,
    `<constant> in <base>`, and and/or/not over those."""
    if isinstance(expr, ast.UnaryOp) and isinstance(expr.op, ast.Not):
        return seq_min_len(expr.operand, not truth, base, len_aliases)
    if isinstance(expr, ast.BoolOp):
        vals = [seq_min_len(v, truth, base, len_aliases) for v in expr.values]
        all_hold = (isinstance(expr.op, ast.And) and truth) or (isinstance(expr.op, ast.Or) and not truth)
        return max(vals) if all_hold else min(vals)
    if _txt(expr) == base:
        return 1 if truth else 0
    if isinstance(expr, ast.Call) and isinstance(expr.func, ast.Attribute) and expr.func.attr in ('startswith', 'endswith') \
            and _txt(expr.func.value) == base and expr.args and truth:
        return _const_len(expr.args[0]) or 0
    if isinstance(expr, ast.Compare):
        operands = [expr.left] + list(expr.comparators)
        pairs = list(zip(operands, expr.ops, operands[1:]))
        if truth:
            return max(_pair_min_len(l, o, r, True, base, len_aliases) for l, o, r in pairs)
        if len(pairs) == 1:
            l, o, r = pairs[0]
            return _pair_min_len(l, o, r, False, base, len_aliases)
    return 0


def index_in_range(expr, truth: bool, idx: str, base: str, len_aliases=()) -> Tuple[bool, bool]:
    """(non-negative, below len(base)) facts about the index variable `idx` that follow from `expr` being `truth`."""
    if isinstance(expr, ast.UnaryOp) and isinstance(expr.op, ast.Not):
        return index_in_range(expr.operand, not truth, idx, base, len_aliases)
    if isinstance(expr, ast.BoolOp):
        rs = [index_in_range(v, truth, idx, base, len_aliases) for v in expr.values]
        all_hold = (isinstance(expr.op, ast.And) and truth) or (isinstance(expr.op, ast.Or) and not truth)
        comb = any if all_hold else all
        return comb(r[0] for r in rs), comb(r[1] for r in rs)
    lo = hi = False
    if isinstance(expr, ast.Compare):
        operands = [expr.left] + list(expr.comparators)
        pairs = list(zip(operands, expr.ops, operands[1:]))
        if not truth and len(pairs) != 1:
            return False, False
        for l, op, r in pairs:
            for a, o, b in ((l, type(op), r), (r, _MIRROR.get(type(op)), l)):
                if o is None or not (isinstance(a, ast.Name) and a.id == idx):
                    continue
                # a is the index: a <o> b
                c = _int_const(b)
                if c is not None:
                    if (o, truth) in ((ast.GtE, True), (ast.Lt, False)) and c >= 0:
                        lo = True
                    if (o, truth) in ((ast.Gt, True), (ast.LtE, False)) and c >= -1:
                        lo = True
                    if (o, truth) == (ast.Eq, True) and c >= 0:
                        lo = True
                if _is_len_of(b, base, len_aliases) and (o, truth) in ((ast.Lt, True), (ast.GtE, False)):
                    hi = True
    return lo, hi


def regex_group_min_width(pattern, group: int) -> Optional[int]:
    """least number of characters capture group `group` of the pattern spans when it takes part in a match"""
    import re as _re
    try:
        parser = _re._parser            # Python >= 3.11
    except AttributeError:              # pragma: no cover
        import sre_parse as parser
    try:
        tree = parser.parse(pattern)
    except Exception:
        return None
    found: List[int] = []

    def rec(x):
        if isinstance(x, parser.SubPattern):
            for op, av in x.data:
                if str(op) == 'SUBPATTERN' and isinstance(av, tuple) and av and av[0] == group:
                    found.append(int(av[-1].getwidth()[0]))
                rec(av)
        elif isinstance(x, (tuple, list)):
            for y in x:
                rec(y)

    rec(tree)
    return min(found) if found else None


def dominating_outcomes(cfg: CFG, nid: int) -> List[Tuple[int, str, bool]]:
    """(test node id, edge label, outcome) of every branch test whose outcome is fixed on all paths entry -> nid"""
    out = []
    for t in cfg.live_nodes():
        if t.kind != 'test' or t.id == nid:
            continue
        for lab, truth in (('T', True), ('F', False)):
            edges = flow.edges_out(cfg, t.id, lab)
            if edges and nid not in flow.reachable(cfg, [cfg.entry], avoid_edges=edges):
                out.append((t.id, lab, truth))
    return out


def rebound_between(cfg: CFG, tid: int, label: str, nid: int, names: Set[str], attr_texts: Set[str] = frozenset()) -> bool:
    """May one of the local `names` (or an attribute chain written as in `attr_texts`) be re-bound on a way from the
    `label` edge of test `tid` to node `nid` that does not pass the test again?  (Then what the test said is stale.)"""
    starts = [b for (_a, b, _l) in flow.edges_out(cfg, tid, label)]
    after = flow.reachable(cfg, starts, avoid_nodes=[tid])
    for d in after:
        n = cfg.node(d)
        hit = any(x.name in names for x in node_defs(n))
        if not hit and attr_texts and n.kind == 'stmt' and isinstance(n.ast, (ast.Assign, ast.AnnAssign, ast.AugAssign, ast.Delete)):
            tg = n.ast.targets if isinstance(n.ast, (ast.Assign, ast.Delete)) else [n.ast.target]
            for t in tg:
                for x in ([t] if not isinstance(t, (ast.Tuple, ast.List)) else list(t.elts)):
                    if isinstance(x, ast.Attribute) and _txt(x) in attr_texts:
                        hit = True
        if not hit and attr_texts and n.kind == 'stmt':
            for c in n.calls():   # in-place mutation of the attribute (pop / clear / remove ...) may shorten it
                if isinstance(c.func, ast.Attribute) and c.func.attr in ('pop', 'clear', 'remove', 'popitem') and _txt(c.func.value) in attr_texts:
                    hit = True
        if not hit:
            continue
        if d == nid:
            # the use itself re-binds (x = x[0]): the subscript is evaluated first; stale only if the node can reach itself
            nxt = [b for (b, l) in cfg.succ[d] if l != 'exc']
            if nid in flow.reachable(cfg, nxt, avoid_nodes=[tid]):
                return True
            continue
        nxt = [b for (b, l) in cfg.succ[d] if l != 'exc']
        if nid in flow.reachable(cfg, nxt, avoid_nodes=[tid]) or nid in nxt:
            return True
    return False


_TEXT_ANNOTATIONS = ('str', 'bytes', 'Optional[str]', 'Optional[bytes]', "'str'", "'bytes'", 'AnyStr')
_TEXT_METHODS = ('strip', 'lstrip', 'rstrip', 'lower', 'upper', 'casefold', 'title', 'capitalize', 'swapcase', 'replace', 'decode', 'encode',
                 'format', 'join', 'removeprefix', 'removesuffix', 'expandtabs', 'translate', 'zfill', 'ljust', 'rjust', 'center', 'group')
_TEXT_PIECES_METHODS = ('split', 'rsplit', 'splitlines', 'partition', 'rpartition', 'groups', 'findall')
# external (stdlib) functions that answer a str for a str
_EXTERNAL_TEXT_FUNCS = ('http.cookies._unquote', 'urllib.parse.unquote', 'urllib.parse.unquote_plus', 'urllib.parse.quote', 'html.escape', 'html.unescape')


class SeqKinds:
    """What a local expression of one function denotes, as far as an integer index is concerned:
    'text' (str / bytes), 'seq' (list / tuple), 'map' (mapping: a subscript is a key lookup), None (not known).
    Flow-insensitive over all bindings of a name; a name bound to different kinds is None."""

    def __init__(self, p: Project, f: Func):
        self.p, self.f = p, f
        self.binds: Dict[str, List[Tuple[str, object, Optional[int]]]] = {}
        self._active: Set[str] = set()
        a = f.node.args
        for arg in list(a.posonlyargs) + list(a.args) + list(a.kwonlyargs):
            self.binds.setdefault(arg.arg, []).append(('param', arg.annotation, None))

        def bind(t, kind, v, idx=None):
            if isinstance(t, ast.Name):
                self.binds.setdefault(t.id, []).append((kind, v, idx))
            elif isinstance(t, ast.Starred):
                bind(t.value, 'opaque', None)
            elif isinstance(t, (ast.Tuple, ast.List)):
                if kind == 'assign' and isinstance(v, (ast.Tuple, ast.List)) and len(v.elts) == len(t.elts):
                    for te, ve in zip(t.elts, v.elts):
                        bind(te, 'assign', ve)
                else:
                    for i, te in enumerate(t.elts):
                        bind(te, 'unpack' if kind == 'assign' else 'iter-unpack' if kind in ('iter', 'iter-unpack') else 'opaque', v, i)

        for n in walk_no_nested(f.node):
            if isinstance(n, ast.Assign):
                for t in n.targets:
                    bind(t, 'assign', n.value)
            elif isinstance(n, ast.AnnAssign) and n.value is not None:
                bind(n.target, 'assign', n.value)
            elif isinstance(n, ast.AugAssign):
                bind(n.target, 'assign', n.value)      # text += text stays text; anything else disagrees and yields None
            elif isinstance(n, (ast.For, ast.AsyncFor, ast.comprehension)):
                bind(n.target, 'iter', n.iter)
            elif isinstance(n, ast.NamedExpr):
                bind(n.target, 'assign', n.value)
            elif isinstance(n, (ast.With, ast.AsyncWith)):
                for it in n.items:
                    if it.optional_vars is not None:
                        bind(it.optional_vars, 'opaque', None)
            elif isinstance(n, ast.ExceptHandler) and n.name:
                self.binds.setdefault(n.name, []).append(('opaque', None, None))

    @staticmethod
    def _of_annotation(a) -> Optional[str]:
        if a is None:
            return None
        t = ast.unparse(a).replace('typing.', '')
        if t in _TEXT_ANNOTATIONS:
            return 'text'
        for pre in ('Optional[', 'UnsetOr['):
            while t.startswith(pre) and t.endswith(']'):
                t = t[len(pre):-1]
        if t in _TEXT_ANNOTATIONS:
            return 'text'
        if t.startswith(('List[', 'Tuple[', 'Sequence[', 'list[', 'tuple[')) or t in ('list', 'tuple'):
            return 'seq'
        if t.startswith(('Dict[', 'Mapping[', 'MutableMapping[', 'dict[')) or t in ('dict',):
            return 'map'
        return None

    @staticmethod
    def _elem_of_annotation(a) -> Optional[str]:
        if a is None:
            return None
        t = ast.unparse(a).replace('typing.', '')
        for pre in ('Iterator[', 'Iterable[', 'List[', 'Sequence[', 'Generator[', 'list['):
            if t.startswith(pre):
                inner = t[len(pre):-1].split(',')[0].strip()
                return 'text' if inner in _TEXT_ANNOTATIONS else None
        return None

    def _callee_returns(self, e):
        """return annotation of the package function / property an expression calls or reads"""
        if isinstance(e, ast.Call):
            t = self.p.callee(self.f, e)
            if isinstance(t, Func):
                return t.node.returns
        if isinstance(e, ast.Attribute) and isinstance(e.value, ast.Name) and e.value.id == 'self':
            c = func_owner_class(self.f)
            if c is not None:
                m = self.p.lookup_method(c.qual, e.attr)
                if m is not None and m.is_property():
                    return m.node.returns
                if m is None:
                    return self._declared(c, e.attr)
        return None

    def _declared(self, c: Class, attr: str):
        """declared type of an instance attribute: `attr: T [= v]` in a class body of the MRO, or `self.attr: T = v` in a method"""
        for k in self.p.mro(c.qual):
            kc = self.p.classes.get(k)
            if kc is None:
                continue
            for n in kc.node.body:
                if isinstance(n, ast.AnnAssign) and isinstance(n.target, ast.Name) and n.target.id == attr:
                    return n.annotation
            for mf in kc.methods.values():
                for n in walk_no_nested(mf.node):
                    if isinstance(n, ast.AnnAssign) and isinstance(n.target, ast.Attribute) and n.target.attr == attr \
                            and isinstance(n.target.value, ast.Name) and n.target.value.id == 'self':
                        return n.annotation
        return None

    def elem_kind(self, e) -> Optional[str]:
        """kind of the items obtained by iterating e"""
        if isinstance(e, ast.Call) and isinstance(e.func, ast.Attribute) and e.func.attr in _TEXT_PIECES_METHODS:
            return 'text'
        if self.kind(e) == 'text':
            return 'text'
        return self._elem_of_annotation(self._callee_returns(e)) if isinstance(e, (ast.Call, ast.Attribute)) else (
            self._name_elem(e) if isinstance(e, ast.Name) else None)

    def _name_elem(self, e: ast.Name) -> Optional[str]:
        bs = self.binds.get(e.id, [])
        ks = set()
        for how, v, _i in bs:
            if how == 'assign' and v is not None and not (isinstance(v, ast.Name) and v.id == e.id):
                ks.add(self.elem_kind(v) if not isinstance(v, ast.Name) else None)
            else:
                ks.add(None)
        return ks.pop() if len(ks) == 1 else None

    def kind(self, e) -> Optional[str]:
        f = self.f
        if isinstance(e, ast.Constant):
            return 'text' if isinstance(e.value, (str, bytes)) else None
        if isinstance(e, ast.JoinedStr):
            return 'text'
        if isinstance(e, (ast.List, ast.Tuple, ast.ListComp)):
            return 'seq'
        if isinstance(e, (ast.Dict, ast.DictComp)):
            return 'map'
        if table_of(f, e) is not None:
            return 'map'
        if isinstance(e, ast.Name):
            if e.id in self._active:
                return 'any'        # a cycle agrees with whatever the other bindings say
            bs = self.binds.get(e.id)
            if not bs:
                q = self.p.resolve_expr(f.module, e, f)
                if q:
                    head, _, tail = q.rpartition('.')
                    m = self.p.modules.get(head)
                    if m is not None and tail in m.consts:
                        v = m.consts[tail]
                        if isinstance(v, (ast.Dict, ast.DictComp)) or (isinstance(v, ast.Call) and isinstance(v.func, ast.Name) and v.func.id == 'dict'):
                            return 'map'
                        if isinstance(v, ast.Constant) and isinstance(v.value, (str, bytes)):
                            return 'text'
                        if isinstance(v, (ast.Tuple, ast.List)):
                            return 'seq'
                return None
            self._active.add(e.id)
            try:
                ks = set()
                for how, v, idx in bs:
                    if how == 'param':
                        ks.add(self._of_annotation(v))
                    elif how == 'assign':
                        ks.add(self.kind(v))
                    elif how == 'unpack':
                        if isinstance(v, ast.Call) and isinstance(v.func, ast.Attribute) and v.func.attr in _TEXT_PIECES_METHODS:
                            ks.add('text')
                        else:
                            ks.add(None)
                    elif how == 'iter':
                        ks.add(self.elem_kind(v))
                    elif how == 'iter-unpack':
                        ks.add('text' if isinstance(v, ast.Call) and isinstance(v.func, ast.Attribute) and v.func.attr in ('findall', 'finditer') else None)
                    else:
                        ks.add(None)
            finally:
                self._active.discard(e.id)
            ks.discard('any')
            return ks.pop() if len(ks) == 1 else None
        if isinstance(e, ast.Subscript):
            if isinstance(e.slice, ast.Slice):
                return self.kind(e.value)
            t = table_of(f, e.value)
            if t is not None and t[0] in ('environ', 'asgi-headers', 'cached-headers'):
                return 'text'
            return None
        if isinstance(e, ast.BinOp) and isinstance(e.op, (ast.Add, ast.Mod)):
            l, r = self.kind(e.left), self.kind(e.right)
            return 'text' if 'text' in (l, r) and {l, r} <= {'text', 'any'} else ('seq' if l == r == 'seq' else None)
        if isinstance(e, ast.IfExp):
            ks = {self.kind(e.body), self.kind(e.orelse)} - {'any'}
            return ks.pop() if len(ks) == 1 else None
        if isinstance(e, ast.BoolOp):
            ks = {self.kind(v) for v in e.values} - {'any'}
            return ks.pop() if len(ks) == 1 else None
        if isinstance(e, ast.NamedExpr):
            return self.kind(e.value)
        if isinstance(e, ast.Call):
            if isinstance(e.func, ast.Attribute):
                if e.func.attr in _TEXT_METHODS:
                    return 'text'
                if e.func.attr in _TEXT_PIECES_METHODS:
                    return 'seq'
                if e.func.attr in ('items', 'keys', 'values') and not e.args:
                    return None
                if e.func.attr in ('get', 'pop') and e.args:
                    t = table_of(f, e.func.value)
                    if t is not None and t[0] in ('environ', 'asgi-headers', 'cached-headers'):
                        return 'text'
            if isinstance(e.func, ast.Name) and e.func.id not in self.binds:
                if e.func.id in ('str', 'bytes', 'repr', 'chr'):
                    return 'text'
                if e.func.id in ('list', 'tuple', 'sorted'):
                    return 'seq'
                if e.func.id in ('dict',):
                    return 'map'
            t = self.p.resolve_callable(f, e.func) if isinstance(e.func, (ast.Name, ast.Attribute)) else None
            if isinstance(t, str) and t in _EXTERNAL_TEXT_FUNCS:
                return 'text'
            return self._of_annotation(self._callee_returns(e))
        if isinstance(e, ast.Attribute):
            return self._of_annotation(self._callee_returns(e))
        return None


# ---------------------------------------------------------------------------
# reading through a statement-level call of a plain module-level helper
# ---------------------------------------------------------------------------

def _plain_stmt_helper(p, f: Func, call: ast.Call) -> Optional[Func]:
    """The callee of `call` when it is a plain function of f's own module whose body can stand where the call statement
    stands: module level, no decorators, not a coroutine / generator, no nested definitions, no global / nonlocal,
    positional-or-keyword parameters only, no `return` except (at most) a bare one as its very last statement."""
    if any(isinstance(a, ast.Starred) for a in call.args) or any(k.arg is None for k in call.keywords):
        return None
    h = p.resolve_callable(f, call.func)
    if not isinstance(h, Func) or h.cls is not None or h.parent is not None or h.module is not f.module or h.is_async or h.decorators \
            or h.node is f.node:
        return None
    a = h.node.args
    if a.vararg or a.kwarg or a.kwonlyargs or a.posonlyargs:
        return None
    for x in ast.walk(h.node):
        if x is not h.node and isinstance(x, (ast.FunctionDef, ast.AsyncFunctionDef, ast.Lambda, ast.ClassDef)):
            return None
        if isinstance(x, (ast.Yield, ast.YieldFrom, ast.Await, ast.Global, ast.Nonlocal)):
            return None
        if isinstance(x, ast.Return) and not (x.value is None and h.node.body and x is h.node.body[-1]):
            return None
    names = [x.arg for x in a.args]
    given = set(names[:len(call.args)]) | {k.arg for k in call.keywords}
    if len(call.args) > len(names) or not given <= set(names) or len(given) != len(call.args) + len(call.keywords):
        return None
    n_def = len(a.defaults)
    for i, nm in enumerate(names):
        if nm not in given and i < len(names) - n_def:
            return None
    return h


def inline_stmt_helpers(p, f: Func, depth: int = 2) -> Func:
    """`f` with every statement `H(args)` (an expression statement) of a plain same-module helper H (see
    _plain_stmt_helper) replaced by H's body: a parameter that H never re-binds and that is handed a plain name IS that
    name; any other parameter becomes a fresh local bound to the argument (or to the default) in front of the body; H's
    own locals are renamed apart.  Statements keep the positions they have in H.  `f` itself is returned when there is
    nothing to replace.  The view is what the statements of `f` do, in order, with the helper's statements in place of
    the call -- for rules that judge stores / tests spread over the statements of one function."""
    import copy as _copy
    cache = p.__dict__.setdefault('_c09_inline_views', {})
    key = (f.qual, id(f.node))
    if key in cache:
        return cache[key]
    counter = [0]

    def expand(stmts, d):
        out, changed = [], False
        for st in stmts:
            if isinstance(st, ast.Expr) and isinstance(st.value, ast.Call) and d < depth:
                h = _plain_stmt_helper(p, f, st.value)
                if h is not None:
                    counter[0] += 1
                    tag = '_inl%d_' % counter[0]
                    hp = [x.arg for x in h.node.args.args]
                    stored = {x.id for x in ast.walk(h.node) if isinstance(x, ast.Name) and isinstance(x.ctx, (ast.Store, ast.Del))}
                    actual = dict(zip(hp, st.value.args))
                    actual.update({k.arg: k.value for k in st.value.keywords})
                    n_def = len(h.node.args.defaults)
                    for i, nm in enumerate(hp):
                        if nm not in actual:
                            actual[nm] = h.node.args.defaults[i - (len(hp) - n_def)]
                    ren = {}
                    pre = []
                    for nm in hp:
                        a = actual[nm]
                        if isinstance(a, ast.Name) and nm not in stored and a.id not in stored:
                            ren[nm] = a.id
                        else:
                            ren[nm] = tag + nm
                            pre.append(ast.copy_location(ast.Assign(targets=[ast.Name(id=tag + nm, ctx=ast.Store())], value=_copy.deepcopy(a)), st))
                    for nm in stored - set(hp):
                        ren[nm] = tag + nm
                    body = [_copy.deepcopy(s) for s in h.node.body]
                    if body and isinstance(body[-1], ast.Return):
                        body = body[:-1]
                    body = [s for s in body if not (isinstance(s, ast.Expr) and isinstance(s.value, ast.Constant))] or [ast.copy_location(ast.Pass(), st)]
                    for s in body:
                        for x in ast.walk(s):
                            if isinstance(x, ast.Name) and x.id in ren:
                                x.id = ren[x.id]
                    body, _ch = expand(body, d + 1)
                    out.extend(pre + body)
                    changed = True
                    continue
            for fld in ('body', 'orelse', 'finalbody'):
                sub = getattr(st, fld, None)
                if isinstance(sub, list) and sub and isinstance(sub[0], ast.stmt):
                    new, ch = expand(sub, d)
                    if ch:
                        setattr(st, fld, new)
                        changed = True
            for hd in getattr(st, 'handlers', None) or []:
                new, ch = expand(hd.body, d)
                if ch:
                    hd.body = new
                    changed = True
            out.append(st)
        return out, changed

    g = f
    if any(isinstance(st, ast.Expr) and isinstance(st.value, ast.Call) and _plain_stmt_helper(p, f, st.value) is not None
           for st in walk_no_nested(f.node)):
        node = _copy.deepcopy(f.node)
        # (the calls of the copy resolve like those of the original: resolution goes by name through f's module)
        body, ch = expand(node.body, 0)
        if ch:
            node.body = body
            ast.fix_missing_locations(node)
            g = Func(node, f.qual, f.module, f.cls, f.parent)
            g.nested = f.nested
            g.origin = f
    cache[key] = g
    return g
