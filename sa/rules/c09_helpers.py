"""Shared helpers for C06 / C08 / C09.

* frozen exemption tables (server-mandated keys, server-controlled values),
  one reason per entry, never a wildcard;
* ``SiteEscape``: the E5 escape analysis of ``sa.escape`` extended (by
  subclassing, the engine file is frozen) with
    - origin *sites*: every escaping class is tracked per originating
      construct, so one defect is reported once however many accessors reach it;
    - constant propagation of boolean/None arguments and parameter defaults
      into callees plus dead-code pruning (``get_header(name)`` cannot raise
      ``HTTPMissingHeader`` because ``required`` defaults to False);
    - alias handling for request tables (``headers = self._asgi_headers``),
      module-level dict tables (``_HEX_TO_BYTE[...]``), class-level aliases
      (``url = uri``), factory-built properties (``_header_property``) and
      conditional module aliases (``_join_tokens = a if PYPY else b``);
    - *checked* exemptions (DESIGN 1.3.7) for server-controlled conversions;
* the effective member table of a class (methods, properties, aliases,
  factory properties) by MRO;
* dominance facts, HTTP status of an error class, header-key normalisation.
"""

from __future__ import annotations

import ast
from typing import Callable, Dict, List, Optional, Set, Tuple

from .. import flow
from ..cfg import CFG
from ..escape import (PRIM_CALLS, PRIM_METHODS, REQUEST_TABLES, TOTAL_CODECS, UTF_CODECS, Escape, _codec_args,
                      _in_guards, _is_split_call, _is_total_int_arg)
from ..model import (UNKNOWN, AnchorError, Class, Func, Project, UnknownIdiom, attr_chain, func_owner_class, short,
                     walk_no_nested)
from .common import implied, walk_self

WSGI_REQ = 'falcon.request.Request'
ASGI_REQ = 'falcon.asgi.request.Request'

# ---------------------------------------------------------------------------
# frozen exemption tables
# ---------------------------------------------------------------------------

# request table (attribute chain) -> kind
TABLE_KINDS: Dict[Tuple[str, ...], str] = {
    ('self', 'env'): 'environ',
    ('env',): 'environ',
    ('self', 'scope'): 'scope',
    ('scope',): 'scope',
    ('self', '_asgi_headers'): 'asgi-headers',
    ('self', '_cookies'): 'cookies',
    ('self', '_params'): 'params',
    ('self', '_cached_headers'): 'cached-headers',
}
assert set(TABLE_KINDS) == set(REQUEST_TABLES), 'request tables of sa.escape changed'

# (table kind, key) -> reason.  Reads of these keys cannot raise KeyError
# because the gateway specification obliges the *server* to provide them.
SERVER_KEYS: Dict[Tuple[str, object], str] = {
    ('environ', 'REQUEST_METHOD'): 'PEP 3333: REQUEST_METHOD can never be empty and is always required',
    ('environ', 'SERVER_NAME'): 'PEP 3333: SERVER_NAME can never be empty and is always required',
    ('environ', 'SERVER_PORT'): 'PEP 3333: SERVER_PORT can never be empty and is always required',
    ('environ', 'PATH_INFO'): 'PEP 3333 CGI variable set by the server for every request (may be the empty string)',
    ('environ', 'wsgi.url_scheme'): 'PEP 3333: wsgi.url_scheme is a required WSGI variable',
    ('environ', 'wsgi.input'): 'PEP 3333: wsgi.input is a required WSGI variable',
    ('environ', 'wsgi.errors'): 'PEP 3333: wsgi.errors is a required WSGI variable',
    ('scope', 'type'): 'ASGI: every connection scope carries a type',
    ('scope', 'method'): 'ASGI HTTP scope: method is a required key (only read for non-websocket scopes)',
    ('scope', 'path'): 'ASGI HTTP/WebSocket scope: path is a required key',
    ('scope', 'headers'): 'ASGI HTTP/WebSocket scope: headers is sent by the server (framework relies on it since 3.0)',
    ('scope', 'query_string'): 'ASGI HTTP/WebSocket scope: query_string is sent by the server as a byte string',
}

# (table kind, key) whose *value* is produced by the server, not the client:
# converting it with int() is not a client-triggerable failure.
SERVER_VALUES: Dict[Tuple[str, object], str] = {
    ('environ', 'SERVER_PORT'): 'PEP 3333: SERVER_PORT is the server\'s own listening port, a decimal string',
}

# (table kind, key) whose value is a native string of code points <= U+00FF
# (bytes tunnelled as latin-1), so .encode('iso-8859-1') is total.
LATIN1_TUNNELLED: Dict[Tuple[str, object], str] = {
    ('environ', 'PATH_INFO'): 'PEP 3333: PATH_INFO is a native string holding bytes tunnelled as ISO-8859-1',
}

# (function, parameter) -> reason: the argument is chosen by the application,
# never derived from the request, so encoding it is not client-triggerable.
APP_SUPPLIED_PARAMS: Dict[Tuple[str, str], str] = {
    (ASGI_REQ + '.get_header', 'name'): 'the header *name* passed to get_header() is chosen by the application',
}

# accessors of C09 R1 (frozen list, DESIGN C09)
C09_ACCESSORS = (
    'content_length', 'range', 'range_unit', 'date', 'if_match', 'if_none_match', 'if_modified_since',
    'if_unmodified_since', 'cookies', 'get_cookie_values', 'forwarded', 'access_route', 'remote_addr',
    'forwarded_scheme', 'forwarded_host', 'host', 'port', 'netloc', 'subdomain', 'uri', 'url', 'prefix',
    'relative_uri', 'forwarded_uri', 'forwarded_prefix', 'headers', 'headers_lower', 'accept',
    'client_accepts', 'client_accepts_json', 'client_accepts_msgpack', 'client_accepts_xml', 'client_prefers',
    'get_header', 'get_header_as_int', 'get_header_as_datetime',
)

SEP = ' @@ '
UNK = UNKNOWN


def norm(node) -> str:
    return ' '.join(short(node, 200).split())


class Origin(tuple):
    """(where, text) chain element that also knows its function and construct."""

    def __new__(cls, where, text, fq, cons):
        o = tuple.__new__(cls, (where, text))
        o.fq = fq
        o.cons = cons
        return o

    @property
    def key(self):
        return '%s :: %s' % (self.fq, self.cons)


def split_key(k: str) -> Tuple[str, str]:
    """summary key -> (exception class, origin key)"""
    cls, _, org = k.partition(SEP)
    return cls, org


def classes_of(summary) -> Set[str]:
    return {split_key(k)[0] for k in summary}


def unguarded_keys(E, summaries) -> Dict[Tuple[str, object], List[str]]:
    """(table kind, key) -> origin sites, for constant-key table reads whose
    KeyError escapes the function that makes them."""
    out: Dict[Tuple[str, object], List[str]] = {}
    for summ in summaries:
        for k in summ:
            cls, org = split_key(k)
            if cls == 'builtins.KeyError' and org in E.key_sites:
                lst = out.setdefault(E.key_sites[org], [])
                if org not in lst:
                    lst.append(org)
    return out


# ---------------------------------------------------------------------------
# per-function assignment index
# ---------------------------------------------------------------------------

_ASSIGN_CACHE: Dict[int, Dict[str, List[Optional[ast.AST]]]] = {}


def assignments(func: Func) -> Dict[str, List[Optional[ast.AST]]]:
    """local name -> list of assigned value expressions; None marks a binding
    whose value is not a plain expression (loop target, unpacking, with, ...)."""
    key = id(func.node)
    if key in _ASSIGN_CACHE:
        return _ASSIGN_CACHE[key]
    out: Dict[str, List[Optional[ast.AST]]] = {}

    def bind(t, v):
        if isinstance(t, ast.Name):
            out.setdefault(t.id, []).append(v)
        elif isinstance(t, (ast.Tuple, ast.List)):
            if isinstance(v, (ast.Tuple, ast.List)) and len(v.elts) == len(t.elts):
                for te, ve in zip(t.elts, v.elts):
                    bind(te, ve)
            else:
                for te in t.elts:
                    bind(te, None)
        elif isinstance(t, ast.Starred):
            bind(t.value, None)

    for n in walk_no_nested(func.node):
        if isinstance(n, ast.Assign):
            for t in n.targets:
                bind(t, n.value)
        elif isinstance(n, ast.AnnAssign) and n.value is not None:
            bind(n.target, n.value)
        elif isinstance(n, ast.AugAssign):
            bind(n.target, None)
        elif isinstance(n, (ast.For, ast.AsyncFor)):
            bind(n.target, None)
        elif isinstance(n, (ast.With, ast.AsyncWith)):
            for it in n.items:
                if it.optional_vars is not None:
                    bind(it.optional_vars, None)
        elif isinstance(n, ast.NamedExpr):
            bind(n.target, None)
        elif isinstance(n, ast.comprehension):
            bind(n.target, None)
        elif isinstance(n, ast.ExceptHandler) and n.name:
            out.setdefault(n.name, []).append(None)
    _ASSIGN_CACHE[key] = out
    return out


def table_aliases(func: Func) -> Dict[str, Tuple[str, ...]]:
    """local name -> request-table chain it denotes (``headers = self._asgi_headers``
    or, in a constructor, ``self._asgi_headers = req_headers``)."""
    res: Dict[str, Tuple[str, ...]] = {}
    asg = assignments(func)
    for name, vals in asg.items():
        chains = set()
        for v in vals:
            ch = attr_chain(v) if v is not None else None
            if ch in TABLE_KINDS and len(ch) > 1:
                chains.add(ch)
        if len(chains) == 1 and all(v is not None and attr_chain(v) in chains for v in vals):
            res[name] = next(iter(chains))
    for n in walk_no_nested(func.node):
        if isinstance(n, (ast.Assign, ast.AnnAssign)) and isinstance(n.value, ast.Name):
            for t in (n.targets if isinstance(n, ast.Assign) else [n.target]):
                ch = attr_chain(t)
                if ch in TABLE_KINDS and len(ch) > 1 and n.value.id not in func.params():
                    res.setdefault(n.value.id, ch)
    return res


def table_of(func: Func, expr) -> Optional[Tuple[str, Tuple[str, ...]]]:
    """(kind, chain as written) if expr denotes a request table."""
    ch = attr_chain(expr)
    if ch is None:
        return None
    if ch in TABLE_KINDS:
        return TABLE_KINDS[ch], ch
    if len(ch) == 1:
        al = table_aliases(func).get(ch[0])
        if al is not None:
            return TABLE_KINDS[al], ch
    return None


def _strip_default(v):
    """`x or <const>` -> x"""
    while isinstance(v, ast.BoolOp) and isinstance(v.op, ast.Or) and all(isinstance(x, ast.Constant) for x in v.values[1:]):
        v = v.values[0]
    return v


def _in_loop(func: Func, node) -> bool:
    def rec(cur, inside):
        if cur is node:
            return inside
        for ch in ast.iter_child_nodes(cur):
            r = rec(ch, inside or isinstance(cur, (ast.For, ast.AsyncFor, ast.While)))
            if r is not None:
                return r
        return None

    return bool(rec(func.node, False))


def derives_only_from(func: Func, expr, pred: Callable[[ast.AST], bool], use_site=None, _depth=0) -> bool:
    """expr is pred-accepted, or a local all of whose bindings are.  A binding
    whose right-hand side contains `use_site` itself (``x = f(x)`` outside any
    loop) cannot reach that use and is skipped."""
    expr = _strip_default(expr)
    if pred(expr):
        return True
    if isinstance(expr, ast.Name) and _depth < 4 and expr.id not in func.params():
        vals = assignments(func).get(expr.id)
        if not vals:
            return False
        if use_site is not None and not _in_loop(func, use_site):
            vals = [v for v in vals if v is None or not any(x is use_site for x in ast.walk(v))]
            if not vals:
                return False
        return all(v is not None and derives_only_from(func, v, pred, use_site, _depth + 1) for v in vals)
    return False


def const_key(expr):
    return expr.value if isinstance(expr, ast.Constant) else UNK


def is_table_read(func: Func, expr, table: Dict[Tuple[str, object], str]) -> Optional[str]:
    """reason if expr is `<table>[<const key>]` with (kind,key) in `table`."""
    if isinstance(expr, ast.Subscript):
        t = table_of(func, expr.value)
        if t is not None:
            k = const_key(expr.slice)
            if k is not UNK:
                return table.get((t[0], k))
    return None


# ---------------------------------------------------------------------------
# constant evaluation of guards under known parameter values
# ---------------------------------------------------------------------------

def ceval(expr, ctx: Dict[str, object]):
    if isinstance(expr, ast.Constant):
        return expr.value
    if isinstance(expr, ast.Name):
        return ctx.get(expr.id, UNK) if expr.id in ctx else UNK
    if isinstance(expr, ast.UnaryOp) and isinstance(expr.op, ast.Not):
        v = ceval(expr.operand, ctx)
        return UNK if v is UNK else (not v)
    if isinstance(expr, ast.Compare) and len(expr.ops) == 1:
        a, b = ceval(expr.left, ctx), ceval(expr.comparators[0], ctx)
        if a is UNK or b is UNK:
            return UNK
        op = expr.ops[0]
        if isinstance(op, ast.Is):
            return a is b
        if isinstance(op, ast.IsNot):
            return a is not b
        if isinstance(op, ast.Eq):
            return a == b
        if isinstance(op, ast.NotEq):
            return a != b
        return UNK
    if isinstance(expr, ast.BoolOp):
        vals = [ceval(v, ctx) for v in expr.values]
        if isinstance(expr.op, ast.And):
            for v in vals:
                if v is UNK:
                    return UNK
                if not v:
                    return v
            return vals[-1]
        for v in vals:
            if v is UNK:
                return UNK
            if v:
                return v
        return vals[-1]
    return UNK


def _is_simple_const(v) -> bool:
    return v is None or isinstance(v, bool)


def _stored_names(func: Func) -> Set[str]:
    return set(assignments(func))


def call_context(caller_ctx: Dict[str, object], call: ast.Call, target: Func, bound: bool) -> Dict[str, object]:
    """Known boolean/None parameter values of `target` for this call."""
    a = target.node.args
    if a.vararg is not None and call.args and len(call.args) > len(a.posonlyargs + a.args):
        return {}
    if any(isinstance(x, ast.Starred) for x in call.args) or any(k.arg is None for k in call.keywords):
        return {}
    pos = [x.arg for x in a.posonlyargs + a.args]
    defaults: Dict[str, ast.AST] = {}
    for name, d in zip(pos[len(pos) - len(a.defaults):], a.defaults):
        defaults[name] = d
    for x, d in zip(a.kwonlyargs, a.kw_defaults):
        if d is not None:
            defaults[x.arg] = d
    if bound and pos:
        pos = pos[1:]
    given: Dict[str, ast.AST] = {}
    for name, arg in zip(pos, call.args):
        given[name] = arg
    for k in call.keywords:
        given[k.arg] = k.value
    reassigned = _stored_names(target)
    ctx: Dict[str, object] = {}
    for name in pos + [x.arg for x in a.kwonlyargs]:
        if name in reassigned:
            continue
        if name in given:
            v = ceval(given[name], caller_ctx)
        elif name in defaults:
            v = ceval(defaults[name], {})
        else:
            continue
        if v is not UNK and _is_simple_const(v):
            ctx[name] = v
    return ctx


def _not_in_guards(test) -> Set[Tuple[str, str]]:
    """`k in d` facts that hold when `test` is FALSE (test = `k not in d`,
    `not (k in d)`, or a disjunction containing such terms)."""
    out: Set[Tuple[str, str]] = set()
    terms = list(test.values) if isinstance(test, ast.BoolOp) and isinstance(test.op, ast.Or) else [test]
    for t in terms:
        if isinstance(t, ast.UnaryOp) and isinstance(t.op, ast.Not):
            out |= _in_guards(t.operand) if not isinstance(t.operand, ast.BoolOp) else set()
        elif isinstance(t, ast.Compare) and len(t.ops) == 1 and isinstance(t.ops[0], ast.NotIn):
            d = '.'.join(attr_chain(t.comparators[0]) or ())
            if d:
                out.add((short(t.left), d))
    return out


def _terminates(s, ctx) -> bool:
    """Control never continues after statement s (under ctx)."""
    if isinstance(s, (ast.Return, ast.Raise, ast.Continue, ast.Break)):
        return True
    if isinstance(s, ast.If):
        v = ceval(s.test, ctx)
        if v is UNK:
            return bool(s.orelse) and _block_terminates(s.body, ctx) and _block_terminates(s.orelse, ctx)
        return _block_terminates(s.body, ctx) if v else (bool(s.orelse) and _block_terminates(s.orelse, ctx))
    if isinstance(s, (ast.With, ast.AsyncWith)):
        return _block_terminates(s.body, ctx)
    return False


def _block_terminates(stmts, ctx) -> bool:
    return any(_terminates(s, ctx) for s in stmts)


# ---------------------------------------------------------------------------
# effective member table
# ---------------------------------------------------------------------------

class Member:
    def __init__(self, name, kind, owner: str, func: Optional[Func], node=None, target: Optional[str] = None):
        self.name = name
        self.kind = kind  # method | property | alias | factory | data
        self.owner = owner  # class that defines it
        self.func = func  # body that runs (fget of a factory property, aliased method)
        self.node = node  # class-level statement for attrs
        self.target = target  # aliased member name

    def __repr__(self):
        return '<Member %s %s of %s>' % (self.kind, self.name, self.owner)


def _property_arg(p: Project, m, v) -> Optional[str]:
    """name N when v is `property(N)` possibly wrapped in cast(...)."""
    if isinstance(v, ast.Call) and isinstance(v.func, ast.Name) and v.func.id == 'cast' and len(v.args) == 2:
        v = v.args[1]
    if (isinstance(v, ast.Call) and isinstance(v.func, ast.Name) and v.func.id == 'property' and v.args
            and isinstance(v.args[0], ast.Name)):
        return v.args[0].id
    return None


def factory_getter(p: Project, c: Class, v) -> Optional[Func]:
    """fget Func if v is a call of a module function that returns property(<nested def>)."""
    if not isinstance(v, ast.Call):
        return None
    q = p.resolve_expr(c.module, v.func)
    f = p.funcs.get(q) if q else None
    if f is None:
        return None
    for n in walk_no_nested(f.node):
        if isinstance(n, ast.Return):
            g = _property_arg(p, f.module, n.value)
            if g is not None and g in f.nested:
                return f.nested[g]
    return None


def own_members(p: Project, c: Class) -> Dict[str, Member]:
    out: Dict[str, Member] = {}
    for name, f in c.methods.items():
        out[name] = Member(name, 'property' if f.is_property() else 'method', c.qual, f)
    for name, v in c.attrs.items():
        if name in out:
            raise UnknownIdiom('%s.%s is defined both by def and by assignment' % (c.qual, name))
        node = c.attr_nodes.get(name)
        if isinstance(v, ast.Name) and (v.id in c.methods or v.id in c.attrs):
            out[name] = Member(name, 'alias', c.qual, None, node, v.id)
            continue
        g = _property_arg(p, c.module, v)
        if g is not None and g in c.methods:
            out[name] = Member(name, 'alias', c.qual, None, node, g)
            continue
        fg = factory_getter(p, c, v)
        if fg is not None:
            out[name] = Member(name, 'factory', c.qual, fg, node)
            continue
        out[name] = Member(name, 'data', c.qual, None, node)
    return out


_MEMBER_CACHE: Dict[Tuple[int, str], Dict[str, Member]] = {}


def effective_members(p: Project, cq: str) -> Dict[str, Member]:
    """name -> first definition along the MRO (package classes only); aliases
    are resolved to the body that runs, *as seen from cq*."""
    key = (id(p), cq)
    if key in _MEMBER_CACHE:
        return _MEMBER_CACHE[key]
    table: Dict[str, Member] = {}
    for k in p.mro(cq):
        c = p.classes.get(k)
        if c is None:
            continue
        for name, m in own_members(p, c).items():
            table.setdefault(name, m)
    # resolve aliases through the effective table (url = uri -> whichever uri wins)
    for name, m in list(table.items()):
        seen = set()
        cur = m
        while cur.kind == 'alias' and cur.target in table and cur.target not in seen:
            seen.add(cur.target)
            cur = table[cur.target]
        if cur is not m:
            table[name] = Member(name, 'alias', m.owner, cur.func, m.node, m.target)
            table[name].resolved_kind = cur.kind
    _MEMBER_CACHE[key] = table
    return table


def is_public(name: str) -> bool:
    return not name.startswith('_') or (name.startswith('__') and name.endswith('__'))


# ---------------------------------------------------------------------------
# site-tracking, context-sensitive escape analysis
# ---------------------------------------------------------------------------

class SiteEscape(Escape):
    def __init__(self, project: Project, server_keys=None, skip_callees: Optional[Dict[str, str]] = None,
                 use_exemptions: bool = True):
        super().__init__(project)
        self.server_keys = SERVER_KEYS if server_keys is None else server_keys
        self.skip_callees = skip_callees or {}
        self.use_exemptions = use_exemptions
        self._ctx: Dict[str, object] = {}
        self.memo = {}
        # origin key of a constant-key table read -> (table kind, key)
        self.key_sites: Dict[str, Tuple[str, object]] = {}

    # ------------------------------------------------------------ fixpoint
    def summary(self, func: Func, selfcls: Optional[Class] = None, ctx: Optional[Dict[str, object]] = None):
        if selfcls is None:
            selfcls = func_owner_class(func)
        key = self._key(func, selfcls, ctx or {})
        if key in self.stable:
            return self.memo[key]
        res = {}
        for _ in range(24):
            self.changed = False
            self.in_progress.clear()
            self._round_done = set()
            res = self._summ(func, selfcls, ctx or {})
            if not self.changed:
                break
        else:
            raise UnknownIdiom('escape analysis did not converge for %s' % func.qual)
        self.stable.update(self._round_done)
        return res

    @staticmethod
    def _key(func, selfcls, ctx):
        return (func.qual, selfcls.qual if selfcls else None, tuple(sorted(ctx.items())))

    def _summ(self, func: Func, selfcls: Optional[Class], ctx: Optional[Dict[str, object]] = None):
        ctx = ctx or {}
        key = self._key(func, selfcls, ctx)
        if key in self.stable or key in self._round_done:
            return self.memo[key]
        if key in self.in_progress:
            return self.memo.get(key, {})
        self.in_progress.add(key)
        out = {}
        saved_guards, saved_ctx = self._guards, self._ctx
        self._guards, self._ctx = [], ctx
        try:
            self._block(func.node.body, func, selfcls, [], out, caught_ctx=None)
        finally:
            self._guards, self._ctx = saved_guards, saved_ctx
        self.in_progress.discard(key)
        old = self.memo.get(key)
        if old is None or set(old) != set(out):
            self.changed = True
        self.memo[key] = out
        self._round_done.add(key)
        return out

    # ------------------------------------------------------- keys / filters
    def _filter(self, exc: str, handlers) -> bool:
        return super()._filter(split_key(exc)[0], handlers)

    def _add(self, out, exc: str, chain, handlers):
        cls = split_key(exc)[0]
        if not Escape._filter(self, cls, handlers):
            return
        org = chain[-1] if chain else None
        key = cls + SEP + (org.key if isinstance(org, Origin) else '?')
        if key not in out or len(chain) < len(out[key]):
            out[key] = chain

    # ------------------------------------------------------------ statements
    def _block(self, stmts, func, selfcls, handlers, out, caught_ctx):
        pushed = 0
        try:
            for s in stmts:
                self._stmt(s, func, selfcls, handlers, out, caught_ctx)
                if _terminates(s, self._ctx):
                    break
                # `if k not in d: <leave>`: the rest of the block runs with k in d
                if isinstance(s, ast.If) and not s.orelse and _block_terminates(s.body, self._ctx):
                    g = _not_in_guards(s.test)
                    if g:
                        self._guards.append(g)
                        pushed += 1
        finally:
            for _ in range(pushed):
                self._guards.pop()

    def _stmt(self, s, func, selfcls, handlers, out, caught_ctx):
        if isinstance(s, ast.If):
            v = ceval(s.test, self._ctx)
            self._expr(s.test, func, selfcls, handlers, out)
            if v is UNK or v:
                guards = self._guards_of(func, s.test)
                if guards:
                    self._guarded_block(s.body, func, selfcls, handlers, out, caught_ctx, guards)
                else:
                    self._block(s.body, func, selfcls, handlers, out, caught_ctx)
            if v is UNK or not v:
                g = _not_in_guards(s.test) if s.orelse else None
                if g:
                    self._guarded_block(s.orelse, func, selfcls, handlers, out, caught_ctx, g)
                else:
                    self._block(s.orelse, func, selfcls, handlers, out, caught_ctx)
            return
        if isinstance(s, ast.Raise) and s.exc is not None:
            e = s.exc.func if isinstance(s.exc, ast.Call) else s.exc
            if not (isinstance(e, ast.Name) and caught_ctx is not None and e.id == caught_ctx[0]):
                where = func.loc(s)
                q = self.p.resolve_expr(func.module, e, func)
                org = Origin(where, short(s, 100), func.qual, norm(s))
                if q and (q in self.p.classes or q.startswith('builtins.')):
                    self._add(out, q, [org], handlers)
                else:
                    self._add(out, '?' + short(e, 60), [org], handlers)
                if isinstance(s.exc, ast.Call):
                    for a in list(s.exc.args) + [k.value for k in s.exc.keywords]:
                        self._expr(a, func, selfcls, handlers, out)
                return
        if isinstance(s, ast.Assign):
            for t in s.targets:
                if isinstance(t, (ast.Tuple, ast.List)) and _is_split_call(s.value):
                    self._prim(out, 'builtins.ValueError', func, s, handlers, 'tuple-unpacking of split()')
            self._expr(s.value, func, selfcls, handlers, out)
            for t in s.targets:
                self._expr(t, func, selfcls, handlers, out, store=True)
            return
        super()._stmt(s, func, selfcls, handlers, out, caught_ctx)

    def _guards_of(self, func, test):
        """`k in d` facts of the true branch, with table aliases as written."""
        return _in_guards(test)

    # --------------------------------------------------------------- sites
    def _prim(self, out, exc, func, node, handlers, why):
        cons = norm(node)
        reason = self._exempt(func, node, exc) if self.use_exemptions else None
        if reason is not None:
            self.exempt_used['%s :: %s' % (func.qual, cons)] = reason
            return
        self.sites_seen += 1
        org = Origin(func.loc(node), '%s  [%s]' % (short(node, 90), why), func.qual, cons)
        self._add(out, exc, [org], handlers)

    def _exempt(self, func: Func, node, exc: str) -> Optional[str]:
        """Checked exemptions: the side condition is evaluated on every run."""
        if isinstance(node, ast.Call):
            f = node.func
            # int(<server-produced value>)
            if exc == 'builtins.ValueError' and isinstance(f, ast.Name) and f.id == 'int' and len(node.args) == 1:
                hit: List[str] = []

                def pred(e):
                    r = is_table_read(func, e, SERVER_VALUES)
                    if r:
                        hit.append(r)
                    return bool(r)

                if derives_only_from(func, node.args[0], pred, use_site=node):
                    return hit[0]
            if isinstance(f, ast.Attribute) and f.attr == 'encode' and exc == 'builtins.UnicodeEncodeError':
                codec, _ = _codec_args(node)
                if codec is not None and codec.lower() in TOTAL_CODECS:
                    hit = []

                    def pred2(e):
                        r = is_table_read(func, e, LATIN1_TUNNELLED)
                        if r:
                            hit.append(r)
                        return bool(r)

                    if derives_only_from(func, f.value, pred2, use_site=node):
                        return hit[0]
                    # receiver built only from an application-supplied parameter
                    names = {x.id for x in walk_self(f.value) if isinstance(x, ast.Name)}
                    if len(names) == 1:
                        r = APP_SUPPLIED_PARAMS.get((func.qual, next(iter(names))))
                        if r and next(iter(names)) in func.params() and next(iter(names)) not in assignments(func):
                            return r
        return None

    # ----------------------------------------------------------- subscripts
    def _module_table(self, func: Func, expr) -> Optional[str]:
        """qualified name if expr names a module-level dict literal/comprehension."""
        if not isinstance(expr, ast.Name):
            return None
        q = self.p.resolve_expr(func.module, expr, func)
        if not q:
            return None
        head, _, tail = q.rpartition('.')
        m = self.p.modules.get(head)
        if m is None or tail not in m.consts:
            return None
        v = m.consts[tail]
        if isinstance(v, (ast.Dict, ast.DictComp)):
            return q
        if isinstance(v, ast.Call) and isinstance(v.func, ast.Name) and v.func.id == 'dict':
            return q
        return None

    def _subscript(self, n: ast.Subscript, func, handlers, out):
        t = table_of(func, n.value)
        if t is None:
            mt = self._module_table(func, n.value)
            if mt is None or isinstance(n.slice, ast.Slice):
                return
            if isinstance(n.slice, ast.Constant):
                return  # constant key of a constant table: decided by the table, not by the client
            ktxt = short(n.slice)
            for g in self._guards:
                if (ktxt, n.value.id) in g:
                    return
            self._prim(out, 'builtins.KeyError', func, n, handlers, 'unguarded lookup in module table %s' % mt)
            return
        kind, ch = t
        k = const_key(n.slice)
        if k is not UNK and self.use_exemptions and (kind, k) in self.server_keys:
            self.exempt_used['%s[%r]' % (kind, k)] = self.server_keys[(kind, k)]
            return
        ktxt = short(n.slice)
        for g in self._guards:
            if (ktxt, '.'.join(ch)) in g:
                return
        if k is not UNK:
            self.key_sites['%s :: %s' % (func.qual, norm(n))] = (kind, k)
        self._prim(out, 'builtins.KeyError', func, n, handlers, 'unguarded request-table lookup')

    # ---------------------------------------------------------- attr reads
    def _member_for(self, rc: str, name: str) -> Optional[Member]:
        return effective_members(self.p, rc).get(name)

    def _attr_read(self, n: ast.Attribute, func, selfcls, handlers, out):
        rc = self._receiver_class(n.value, func, selfcls)
        if rc is None:
            return
        m = self._member_for(rc, n.attr)
        if m is None or m.func is None:
            return
        kind = getattr(m, 'resolved_kind', m.kind)
        if kind in ('property', 'factory'):
            self.calls_resolved += 1
            sub = self._summ(m.func, self.p.classes.get(rc), {})
            for exc, chain in sub.items():
                self._add(out, exc, [(func.loc(n), 'read of property %s' % short(n, 60))] + chain, handlers)

    # --------------------------------------------------------------- calls
    def _merge(self, out, target: Func, cls, call, func, handlers, bound):
        if target.qual in self.skip_callees:
            self.exempt_used['call %s' % target.qual] = self.skip_callees[target.qual]
            return
        self.calls_resolved += 1
        ctx = call_context(self._ctx, call, target, bound)
        sub = self._summ(target, cls, ctx)
        self._merge_call(out, sub, func, call, handlers)

    def _call(self, n: ast.Call, func, selfcls, handlers, out):
        f = n.func
        target = None
        if isinstance(f, ast.Attribute):
            rc = self._receiver_class(f.value, func, selfcls)
            if rc is not None:
                m = self._member_for(rc, f.attr)
                if m is not None and m.func is not None and getattr(m, 'resolved_kind', m.kind) == 'method':
                    self._merge(out, m.func, self.p.classes.get(rc), n, func, handlers, bound=True)
                    return
        t = self.p.resolve_callable(func, f)
        if isinstance(t, Func):
            sc = selfcls if (t.cls is not None and selfcls is not None and self.p.is_subclass(selfcls.qual, t.cls.qual)) else func_owner_class(t)
            bound = t.cls is not None and isinstance(f, ast.Attribute) and 'staticmethod' not in t.decorators
            self._merge(out, t, sc, n, func, handlers, bound)
            return
        if isinstance(t, Class):
            init = self.p.constructor(t)
            self.calls_resolved += 1
            if init is not None:
                self._merge(out, init, t, n, func, handlers, bound=True)
            return
        if isinstance(t, str):
            # conditional module alias: X = a if COND else b
            alts = self._alias_alternatives(t)
            if alts:
                for g in alts:
                    self._merge(out, g, func_owner_class(g), n, func, handlers, bound=False)
                return
        # strict decode / encode primitives (receiver is not a package function)
        if isinstance(f, ast.Attribute) and f.attr in ('decode', 'encode'):
            codec, errors = _codec_args(n)
            if errors in (None, 'strict'):
                if f.attr == 'decode' and (codec is None or codec.lower() not in TOTAL_CODECS):
                    self._prim(out, 'builtins.UnicodeDecodeError', func, n, handlers, 'strict bytes.decode')
                elif f.attr == 'encode' and codec is not None and codec.lower() not in UTF_CODECS:
                    self._prim(out, 'builtins.UnicodeEncodeError', func, n, handlers, 'strict str.encode to a non-UTF codec')
        if isinstance(f, ast.Attribute) and f.attr in PRIM_METHODS and not isinstance(t, str):
            for exc in PRIM_METHODS[f.attr]:
                self._prim(out, exc, func, n, handlers, 'conversion primitive .%s()' % f.attr)
            return
        self.calls_external += 1
        if isinstance(t, str) and t in PRIM_CALLS:
            if n.args and all(isinstance(a, ast.Constant) for a in n.args):
                return
            if t == 'builtins.int' and n.args and _is_total_int_arg(n.args[0]):
                return
            for exc in PRIM_CALLS[t]:
                self._prim(out, exc, func, n, handlers, 'conversion primitive %s()' % t.split('.')[-1])

    def _alias_alternatives(self, q: str) -> List[Func]:
        head, _, tail = q.rpartition('.')
        m = self.p.modules.get(head)
        if m is None or tail not in m.consts:
            return []
        v = m.consts[tail]
        if isinstance(v, ast.IfExp):
            res = []
            for e in (v.body, v.orelse):
                q2 = self.p.resolve_expr(m, e)
                if q2 in self.p.funcs:
                    res.append(self.p.funcs[q2])
                else:
                    return []
            return res
        return []


# ---------------------------------------------------------------------------
# HTTP status of an error class
# ---------------------------------------------------------------------------

HTTP_ERROR = 'falcon.http_error.HTTPError'


def http_status_of(p: Project, cq: str) -> Optional[int]:
    """Status code an HTTPError subclass is constructed with: the first class
    along the MRO whose __init__ passes a folded status as first positional
    argument to super().__init__."""
    if p.is_subclass(cq, HTTP_ERROR) is not True:
        return None
    for k in p.mro(cq):
        c = p.classes.get(k)
        if c is None or k == HTTP_ERROR:
            continue
        init = c.methods.get('__init__')
        if init is None:
            continue
        for n in walk_no_nested(init.node):
            if (isinstance(n, ast.Call) and isinstance(n.func, ast.Attribute) and n.func.attr == '__init__'
                    and isinstance(n.func.value, ast.Call) and isinstance(n.func.value.func, ast.Name)
                    and n.func.value.func.id == 'super' and n.args and not isinstance(n.args[0], ast.Starred)):
                v = p.fold(c.module, n.args[0], c, init)
                if isinstance(v, str) and v[:3].isdigit():
                    return int(v[:3])
                if isinstance(v, int):
                    return v
    return None


def is_4xx(p: Project, exc: str) -> bool:
    st = http_status_of(p, exc)
    return st is not None and 400 <= st <= 499


# ---------------------------------------------------------------------------
# dominance facts
# ---------------------------------------------------------------------------

def branch_facts(cfg: CFG, nid: int) -> List[Tuple[ast.AST, bool]]:
    """(test expression, outcome) for every branch test whose outcome is fixed
    on all paths entry -> nid."""
    out = []
    for t in cfg.live_nodes():
        if t.kind != 'test' or t.id == nid:
            continue
        for lab, truth in (('T', True), ('F', False)):
            edges = flow.edges_out(cfg, t.id, lab)
            if edges and nid not in flow.reachable(cfg, [cfg.entry], avoid_edges=edges):
                out.append((t.ast, truth))
    return out


def fact_value(cfg: CFG, nid: int, atom: Callable[[ast.AST], bool]) -> Optional[bool]:
    """Truth of `atom` implied by the branch facts dominating nid (None if none)."""
    for test, truth in branch_facts(cfg, nid):
        r = implied(test, truth, atom)
        if r is not None:
            return r
    return None


def polar(test, truth: bool, classify: Callable[[ast.AST], int]) -> Optional[bool]:
    """Truth of a proposition P given that `test` evaluated to `truth`;
    classify(e) is +1 if e asserts P, -1 if e asserts not-P, 0 otherwise."""
    c = classify(test)
    if c:
        return truth if c > 0 else (not truth)
    if isinstance(test, ast.UnaryOp) and isinstance(test.op, ast.Not):
        return polar(test.operand, not truth, classify)
    if isinstance(test, ast.BoolOp):
        if (isinstance(test.op, ast.And) and truth) or (isinstance(test.op, ast.Or) and not truth):
            for v in test.values:
                r = polar(v, truth, classify)
                if r is not None:
                    return r
    return None


def polar_fact(cfg: CFG, nid: int, classify: Callable[[ast.AST], int]) -> Optional[bool]:
    for test, truth in branch_facts(cfg, nid):
        r = polar(test, truth, classify)
        if r is not None:
            return r
    return None


def node_of(cfg: CFG, astnode) -> int:
    """CFG node whose own expressions contain astnode."""
    for n in cfg.live_nodes():
        if n.copy:
            continue
        for x in n.walk():
            if x is astnode:
                return n.id
    raise AnchorError('%s: no CFG node for %s' % (cfg.func.qual, short(astnode, 60)))


def nodes_of(cfg: CFG, astnode) -> List[int]:
    return [n.id for n in cfg.live_nodes() if any(x is astnode for x in n.walk())]


# ---------------------------------------------------------------------------
# header-key normalisation (E8)
# ---------------------------------------------------------------------------

def norm_header_key(kind: str, key) -> Optional[str]:
    """Canonical lower-case header name for a table key, None for non-header keys."""
    if kind == 'environ' and isinstance(key, str):
        if key.startswith('HTTP_'):
            return key[5:].replace('_', '-').lower()
        if key in ('CONTENT_TYPE', 'CONTENT_LENGTH'):
            return key.replace('_', '-').lower()
        return None
    if kind == 'asgi-headers':
        if isinstance(key, bytes):
            return key.decode('latin1').lower()
        if isinstance(key, str):
            return key.lower()
    return None


# ---------------------------------------------------------------------------
# reaching definitions of local names (may-analysis over the CFG)
# ---------------------------------------------------------------------------

class Def:
    """One binding of a local name: value is the bound expression, or None
    with `how` telling what bound it ('param', 'for', 'unpack:<i>', 'aug', ...);
    for tuple unpacking `src` is the unpacked expression and `index` the position."""

    def __init__(self, name, value, how, stmt, src=None, index=None):
        self.name = name
        self.value = value
        self.how = how
        self.stmt = stmt
        self.src = src
        self.index = index

    def __repr__(self):
        return '<Def %s %s %s>' % (self.name, self.how, short(self.value, 40) if self.value is not None else short(self.src, 40) if self.src is not None else '')


def _bind_targets(t, v, stmt, out: List[Def]):
    if isinstance(t, ast.Name):
        out.append(Def(t.id, v, 'assign', stmt))
    elif isinstance(t, (ast.Tuple, ast.List)):
        if isinstance(v, (ast.Tuple, ast.List)) and len(v.elts) == len(t.elts):
            for te, ve in zip(t.elts, v.elts):
                _bind_targets(te, ve, stmt, out)
        else:
            for i, te in enumerate(t.elts):
                if isinstance(te, ast.Name):
                    out.append(Def(te.id, None, 'unpack', stmt, src=v, index=i))
                elif isinstance(te, ast.Starred) and isinstance(te.value, ast.Name):
                    out.append(Def(te.value.id, None, 'unpack*', stmt, src=v, index=i))
                elif isinstance(te, (ast.Tuple, ast.List)):
                    _bind_targets(te, None, stmt, out)


def node_defs(n) -> List[Def]:
    """Definitions made by one CFG node (on its normal out-edges)."""
    out: List[Def] = []
    if n.kind == 'stmt':
        a = n.ast
        if isinstance(a, ast.Assign):
            for t in a.targets:
                _bind_targets(t, a.value, a, out)
        elif isinstance(a, ast.AnnAssign) and a.value is not None:
            _bind_targets(a.target, a.value, a, out)
        elif isinstance(a, ast.AugAssign) and isinstance(a.target, ast.Name):
            out.append(Def(a.target.id, None, 'aug', a, src=a.value))
    elif n.kind == 'iter':
        t = n.stmt.target
        if isinstance(t, ast.Name):
            out.append(Def(t.id, None, 'for', n.stmt, src=n.stmt.iter))
        else:
            _bind_targets(t, None, n.stmt, out)
            for d in out:
                d.how = 'for-unpack'
                d.src = n.stmt.iter
    elif n.kind == 'with':
        for it in n.stmt.items:
            if it.optional_vars is not None:
                _bind_targets(it.optional_vars, None, n.stmt, out)
    elif n.kind == 'handler' and n.ast.name:
        out.append(Def(n.ast.name, None, 'except', n.ast))
    return out


class ReachingDefs:
    def __init__(self, cfg: CFG):
        self.cfg = cfg
        f = cfg.func
        self.defs: List[Def] = []
        self.by_node: Dict[int, List[int]] = {}
        for name in f.params():
            self.defs.append(Def(name, None, 'param', f.node))
        n_params = len(self.defs)
        for n in cfg.live_nodes():
            ds = node_defs(n)
            if ds:
                ids = []
                for d in ds:
                    ids.append(len(self.defs))
                    self.defs.append(d)
                self.by_node[n.id] = ids
        init = frozenset(range(n_params))

        def transfer(node, facts, label):
            ids = self.by_node.get(node.id)
            if not ids or label == 'exc':
                return facts
            if node.kind == 'iter' and label != 'next':
                return facts
            names = {self.defs[i].name for i in ids}
            # an augmented assignment keeps nothing of the old value either
            return frozenset(i for i in facts if self.defs[i].name not in names) | frozenset(ids)

        self.IN = flow.forward(cfg, transfer, init, must=False)

    def at(self, nid: int, name: str) -> List[Def]:
        return [self.defs[i] for i in sorted(self.IN.get(nid, ())) if self.defs[i].name == name]


def resolves_to(p: Project, func: Func, call: ast.Call, qual: str) -> bool:
    t = p.resolve_callable(func, call.func)
    if isinstance(t, Func):
        return t.qual == qual
    return t == qual


def concat_parts(e) -> List[ast.AST]:
    if isinstance(e, ast.BinOp) and isinstance(e.op, ast.Add):
        return concat_parts(e.left) + concat_parts(e.right)
    return [e]


def raises_on(cfg: CFG, edges) -> bool:
    """Every continuation over these edges ends exceptionally (no normal exit)."""
    starts = [b for (_a, b, _l) in edges]
    return bool(starts) and cfg.exit not in flow.reachable(cfg, starts)


# ---------------------------------------------------------------------------
# result kinds of a plain header accessor (C06 R2(d), restricted)
# ---------------------------------------------------------------------------
#
# A *plain header accessor* is a getter whose body is: table lookups of one
# request-header table (`T[k]`, `T.get(k[, d])`, `k in T`), `.decode(..)` of the
# looked-up value, constants, factory-bound constants, `or`/`and`/`not`/
# `is None` / conditional expressions over those, plain local assignments,
# `if` over such tests, `try/except KeyError` and `return`.  For such a getter
# the result is a function of the *input class* of the header alone
#   missing | blank (present, empty string) | non-blank
# and is one of
#   ('none',) | ('const', c) | ('value',) | ('raises', 'KeyError').
# Anything else is `Unreadable` (an UnknownIdiom): never guessed.

HEADER_INPUTS = ('missing', 'blank', 'non-blank')
K_NONE = ('none',)
K_VALUE = ('value',)
_DERIVED = ('derived',)  # a factory local computed from the header name: usable as a table key only


class Unreadable(UnknownIdiom):
    """The getter is not a plain header accessor."""


class _HeaderMissing(Exception):
    pass


def factory_bindings(p: Project, c: Class, call) -> Tuple[Func, Func, Dict[str, tuple]]:
    """(factory, getter, name -> abstract value) for a class-level
    `name = factory(<constant arguments>)` whose factory returns
    `property(<nested getter>)`: parameters are bound to the call's constant
    arguments (or their constant defaults); other factory locals are `derived`."""
    if not isinstance(call, ast.Call):
        raise Unreadable('factory property: not a call: %s' % short(call))
    q = p.resolve_expr(c.module, call.func)
    fac = p.funcs.get(q) if q else None
    getter = factory_getter(p, c, call)
    if fac is None or getter is None:
        raise Unreadable('factory property: %s does not resolve to a property factory' % short(call.func))
    a = fac.node.args
    if a.vararg is not None or a.kwarg is not None or any(isinstance(x, ast.Starred) for x in call.args) or any(k.arg is None for k in call.keywords):
        raise Unreadable('%s: star arguments' % fac.qual)
    pos = [x.arg for x in list(a.posonlyargs) + list(a.args)]
    given: Dict[str, Tuple[ast.AST, object]] = {}
    if len(call.args) > len(pos):
        raise Unreadable('%s: too many positional arguments in %s' % (fac.qual, short(call)))
    for nm, e in zip(pos, call.args):
        given[nm] = (e, 'call')
    allnames = set(pos) | {x.arg for x in a.kwonlyargs}
    for k in call.keywords:
        if k.arg not in allnames or k.arg in given:
            raise Unreadable('%s: keyword %s in %s' % (fac.qual, k.arg, short(call)))
        given[k.arg] = (k.value, 'call')
    for nm, d in zip(pos[len(pos) - len(a.defaults):], a.defaults):
        given.setdefault(nm, (d, 'default'))
    for x, d in zip(a.kwonlyargs, a.kw_defaults):
        if d is not None:
            given.setdefault(x.arg, (d, 'default'))
    env: Dict[str, tuple] = {}
    for nm in allnames:
        if nm not in given:
            raise Unreadable('%s: parameter %s is not bound by %s' % (fac.qual, nm, short(call)))
        e, src = given[nm]
        v = p.fold(c.module, e, c) if src == 'call' else p.fold(fac.module, e)
        if v is UNKNOWN:
            raise Unreadable('%s: argument %s=%s is not a constant' % (fac.qual, nm, short(e)))
        env[nm] = K_NONE if v is None else ('const', v)
    for n in walk_no_nested(fac.node):
        if isinstance(n, ast.Name) and isinstance(n.ctx, (ast.Store, ast.Del)):
            if n.id in env and env[n.id] is not _DERIVED:
                raise Unreadable('%s rebinds its parameter %s' % (fac.qual, n.id))
            env[n.id] = _DERIVED
    return fac, getter, env


class _GetterEval:
    CATCH_ALL = {'KeyError', 'LookupError', 'Exception', 'BaseException'}

    def __init__(self, getter: Func, env: Dict[str, tuple], inp: str):
        self.f = getter
        self.env = env
        self.inp = inp
        self.tables: Set[str] = set()

    def bad(self, what, node=None):
        raise Unreadable('%s: %s%s' % (self.f.qual, what, (' ' + short(node, 70)) if node is not None else ''))

    def is_table(self, e) -> bool:
        t = table_of(self.f, e)
        if t is not None and t[0] in ('environ', 'asgi-headers'):
            self.tables.add(t[0])
            return True
        return False

    def key(self, e, loc):
        if isinstance(e, ast.Constant) and isinstance(e.value, (str, bytes)):
            return
        if isinstance(e, ast.Name) and e.id not in loc and e.id in self.env and self.env[e.id] is not K_NONE:
            return
        self.bad('table key', e)

    def truthy(self, v) -> bool:
        if v == K_NONE:
            return False
        if v == K_VALUE:
            return self.inp == 'non-blank'
        return bool(v[1])

    def ev(self, e, loc):
        if isinstance(e, ast.Constant):
            return K_NONE if e.value is None else ('const', e.value)
        if isinstance(e, ast.Name):
            if e.id in loc:
                return loc[e.id]
            v = self.env.get(e.id)
            if v is None or v is _DERIVED:
                self.bad('free name', e)
            return v
        if isinstance(e, ast.Subscript) and isinstance(e.ctx, ast.Load) and self.is_table(e.value):
            self.key(e.slice, loc)
            if self.inp == 'missing':
                raise _HeaderMissing()
            return K_VALUE
        if isinstance(e, ast.Call) and isinstance(e.func, ast.Attribute) and not e.keywords:
            fn = e.func
            if fn.attr == 'get' and 1 <= len(e.args) <= 2 and self.is_table(fn.value):
                self.key(e.args[0], loc)
                if self.inp == 'missing':
                    return self.ev(e.args[1], loc) if len(e.args) == 2 else K_NONE
                return K_VALUE
            if fn.attr == 'decode' and all(isinstance(x, ast.Constant) for x in e.args):
                v = self.ev(fn.value, loc)
                if v == K_VALUE:
                    return v  # b''.decode(..) == '': blank stays blank
            self.bad('call', e)
        if isinstance(e, ast.BoolOp):
            stop = isinstance(e.op, ast.Or)
            for x in e.values[:-1]:
                v = self.ev(x, loc)
                if self.truthy(v) is stop:
                    return v
            return self.ev(e.values[-1], loc)
        if isinstance(e, ast.IfExp):
            return self.ev(e.body if self.truthy(self.ev(e.test, loc)) else e.orelse, loc)
        if isinstance(e, ast.UnaryOp) and isinstance(e.op, ast.Not):
            return ('const', not self.truthy(self.ev(e.operand, loc)))
        if isinstance(e, ast.Compare) and len(e.ops) == 1:
            op, l, r = e.ops[0], e.left, e.comparators[0]
            if isinstance(op, (ast.Is, ast.IsNot)) and isinstance(r, ast.Constant) and r.value is None:
                res = self.ev(l, loc) == K_NONE
                return ('const', res if isinstance(op, ast.Is) else not res)
            if isinstance(op, (ast.In, ast.NotIn)) and self.is_table(r):
                self.key(l, loc)
                res = self.inp != 'missing'
                return ('const', res if isinstance(op, ast.In) else not res)
        self.bad('expression', e)

    def catches(self, h: ast.ExceptHandler) -> bool:
        if h.type is None:
            return True
        ts = h.type.elts if isinstance(h.type, ast.Tuple) else [h.type]
        if not all(isinstance(t, ast.Name) for t in ts):
            self.bad('handler type', h.type)
        return any(t.id in self.CATCH_ALL for t in ts)

    def run(self, stmts, loc):
        for s in stmts:
            if isinstance(s, ast.Pass) or (isinstance(s, ast.Expr) and isinstance(s.value, ast.Constant)):
                continue
            if isinstance(s, ast.Return):
                return ('return', self.ev(s.value, loc) if s.value is not None else K_NONE)
            if isinstance(s, ast.Assign) and len(s.targets) == 1 and isinstance(s.targets[0], ast.Name):
                loc[s.targets[0].id] = self.ev(s.value, loc)
                continue
            if isinstance(s, ast.AnnAssign) and isinstance(s.target, ast.Name):
                if s.value is not None:
                    loc[s.target.id] = self.ev(s.value, loc)
                continue
            if isinstance(s, ast.If):
                r = self.run(s.body if self.truthy(self.ev(s.test, loc)) else s.orelse, loc)
                if r is not None:
                    return r
                continue
            if isinstance(s, ast.Try) and not s.finalbody:
                try:
                    r = self.run(s.body, loc)
                except _HeaderMissing:
                    hs = [h for h in s.handlers if self.catches(h)]
                    if not hs:
                        raise
                    if hs[0].name:
                        self.bad('handler binds the exception', hs[0])
                    r = self.run(hs[0].body, loc)
                else:
                    if r is None:
                        r = self.run(s.orelse, loc)
                if r is not None:
                    return r
                continue
            self.bad('statement %s' % type(s).__name__, s)
        return None


def header_getter_kinds(p: Project, getter: Func, env: Optional[Dict[str, tuple]] = None) -> Dict[str, tuple]:
    """input class -> result kind of a plain header accessor; `Unreadable`
    when the getter has any other shape."""
    if getter.is_async or len(getter.params()) != 1:
        raise Unreadable('%s: not a one-argument synchronous getter' % getter.qual)
    out: Dict[str, tuple] = {}
    tables: Set[str] = set()
    for inp in HEADER_INPUTS:
        ge = _GetterEval(getter, env or {}, inp)
        try:
            r = ge.run(getter.node.body, {})
            v = r[1] if r is not None else K_NONE
        except _HeaderMissing:
            v = ('raises', 'KeyError')
        if v == K_VALUE and inp == 'blank':
            v = ('const', '')  # the blank header value is the empty string
        out[inp] = v
        tables |= ge.tables
    if len(tables) != 1:
        raise Unreadable('%s: reads %d request-header tables' % (getter.qual, len(tables)))
    return out


def kind_text(k: tuple) -> str:
    if k == K_NONE:
        return 'None'
    if k == K_VALUE:
        return 'the header value'
    if k[0] == 'const':
        return 'the constant %r' % (k[1],)
    return 'raises %s' % k[1]
