"""C10 - URI encode/decode: the codec-table clauses (DESIGN.md section 3, C10).

Decided on the pure-Python reference implementation falcon/util/uri.py (the
Cython twin is not analysed).  Tables are *computed* from the source by a tiny
concrete evaluator over constants (string/bytes/int/dict expressions, loops
over constants, comprehensions, the module-level statements that fill a table
in place - `_module_value`) - nothing from the repository is imported or
executed - and compared with RFC 3986; control-flow clauses are dominance /
reachability queries on the CFG, or path facts computed by a small forward
dataflow (`_forward` / `_restrict`: what a branch outcome says about the
input, with and/or in short-circuit order) - per configuration of the encoder
factory for R1 (the closure constants are known), over the outcomes of
`host.startswith('[')` for R6.  A test about the input whose shape is not read
never makes a violation: it turns the verdict that would need it into
UnknownIdiom.
"""

from __future__ import annotations

import ast
from typing import Dict, List, Optional, Set, Tuple

from .. import flow
from ..cfg import cfg_of
from ..model import UNKNOWN, AnchorError, Func, UnknownIdiom, dotted, short, walk_no_nested
from .c11 import _assignments, _guard_verdict, _safe
from .common import enclosing_map, single, walk_self

URI = 'falcon.util.uri'

ALPHA = 'ABCDEFGHIJKLMNOPQRSTUVWXYZabcdefghijklmnopqrstuvwxyz'
DIGIT = '0123456789'
RFC_UNRESERVED = frozenset(ALPHA + DIGIT + '-._~')           # RFC 3986 section 2.3
RFC_GEN_DELIMS = frozenset(':/?#[]@')                        # section 2.2
RFC_SUB_DELIMS = frozenset("!$&'()*+,;=")
RFC_RESERVED = RFC_GEN_DELIMS | RFC_SUB_DELIMS
HEXDIG_BOTH = frozenset('0123456789ABCDEFabcdef')
UTF8 = ('utf-8', 'utf8', 'utf_8', 'UTF-8', 'UTF8')


# ---------------------------------------------------------------------------
# concrete evaluator over constants
# ---------------------------------------------------------------------------

class _Getitem:
    """`d.__getitem__` of an evaluated dict, or `seq.__getitem__` of an evaluated list / tuple: the latter is read as
    the mapping index -> item over range(len(seq)) (the table is only ever applied to the items of a bytes object, i.e.
    to ints >= 0; an index past the end is a missing key in both readings)."""

    def __init__(self, table):
        self.src = table

    @property
    def table(self) -> dict:
        return self.src if isinstance(self.src, dict) else dict(enumerate(self.src))


class _Return(Exception):
    def __init__(self, value):
        self.value = value


class _Break(Exception):
    pass


class _Continue(Exception):
    pass


class _Ev:
    """Evaluates a small side-effect-free language over constants.  Anything
    outside it raises UnknownIdiom (the check is broken, nobody is accused)."""

    def __init__(self, project, func: Func, budget=600000, genv=None):
        self.p = project
        self.f = func
        self.m = func.module
        self.budget = budget
        self.genv = genv if genv is not None else {}     # module-level names bound by evaluated top-level statements
        self._lazy: Set[str] = set()                     # module constants being evaluated on demand (cycle guard)

    def _tick(self, node):
        self.budget -= 1
        if self.budget < 0:
            raise UnknownIdiom('%s: evaluation budget exhausted at %s' % (self.f.qual, short(node, 60)))

    def bad(self, node, why=''):
        raise UnknownIdiom('%s: cannot evaluate %s %s' % (self.f.qual, short(node, 80), why))

    # ------------------------------------------------------------ statements
    def call_func(self, func: Func, args: list):
        sub = _Ev(self.p, func, self.budget, self.genv if func.module is self.m else None)
        a = func.node.args
        names = [x.arg for x in a.posonlyargs + a.args]
        if a.vararg or a.kwarg or len(args) > len(names):
            self.bad(func.node, '(signature)')
        env = {}
        for ko, kd in zip(a.kwonlyargs, a.kw_defaults):
            # the evaluator hands no keywords to project functions: a keyword-only parameter has its default
            if kd is None:
                self.bad(func.node, '(missing keyword-only argument %s)' % ko.arg)
            env[ko.arg] = sub.expr(kd, {})
        defaults = list(a.defaults)
        for i, n in enumerate(names):
            if i < len(args):
                env[n] = args[i]
            else:
                di = i - (len(names) - len(defaults))
                if di < 0:
                    self.bad(func.node, '(missing argument %s)' % n)
                env[n] = sub.expr(defaults[di], {})
        try:
            sub.block(func.node.body, env)
        except _Return as r:
            self.budget = sub.budget
            return r.value
        self.budget = sub.budget
        return None

    def block(self, stmts, env):
        for s in stmts:
            self.stmt(s, env)

    def stmt(self, s, env):
        self._tick(s)
        if isinstance(s, ast.Expr):
            if isinstance(s.value, ast.Constant):
                return
            self.expr(s.value, env)
            return
        if isinstance(s, ast.Pass):
            return
        if isinstance(s, (ast.FunctionDef, ast.AsyncFunctionDef)):
            env[s.name] = ('closure', s)
            return
        if isinstance(s, ast.Return):
            raise _Return(self.expr(s.value, env) if s.value is not None else None)
        if isinstance(s, ast.Break):
            raise _Break()
        if isinstance(s, ast.Continue):
            raise _Continue()
        if isinstance(s, (ast.Assign, ast.AnnAssign)):
            if isinstance(s, ast.AnnAssign) and s.value is None:
                return
            v = self.expr(s.value, env)
            for t in (s.targets if isinstance(s, ast.Assign) else [s.target]):
                self.store(t, v, env)
            return
        if isinstance(s, ast.AugAssign) and isinstance(s.target, ast.Name):
            cur = self.expr(ast.Name(id=s.target.id, ctx=ast.Load()), env)
            env[s.target.id] = self.binop(s.op, cur, self.expr(s.value, env), s)
            return
        if isinstance(s, ast.AugAssign) and isinstance(s.target, ast.Subscript) and isinstance(s.target.value, ast.Name):
            box = self.mutable(s.target.value, env)
            k = self.expr(s.target.slice, env)
            try:
                box[k] = self.binop(s.op, box[k], self.expr(s.value, env), s)
            except (KeyError, IndexError, TypeError) as ex:
                self.bad(s, '(%s)' % type(ex).__name__)
            return
        if isinstance(s, ast.Delete):
            for t in s.targets:
                if isinstance(t, ast.Name):
                    if t.id in env:
                        del env[t.id]
                    elif env is not self.genv:
                        self.bad(s, '(del of an unbound name)')
                elif isinstance(t, ast.Subscript) and isinstance(t.value, ast.Name):
                    box = self.mutable(t.value, env)
                    try:
                        del box[self.expr(t.slice, env)]
                    except (KeyError, IndexError, TypeError) as ex:
                        self.bad(s, '(%s)' % type(ex).__name__)
                else:
                    self.bad(s, '(del target)')
            return
        if isinstance(s, ast.Assert):
            return          # says nothing about what is built
        if isinstance(s, ast.While):
            broke = False
            while self.expr(s.test, env):
                self._tick(s)
                try:
                    self.block(s.body, env)
                except _Break:
                    broke = True
                    break
                except _Continue:
                    continue
            if not broke:
                self.block(s.orelse, env)
            return
        if isinstance(s, ast.If):
            self.block(s.body if self.expr(s.test, env) else s.orelse, env)
            return
        if isinstance(s, ast.For):
            it = self.expr(s.iter, env)
            broke = False
            for item in self.iterate(it, s):
                self.store(s.target, item, env)
                try:
                    self.block(s.body, env)
                except _Break:
                    broke = True
                    break
                except _Continue:
                    continue
            if not broke:
                self.block(s.orelse, env)
            return
        self.bad(s, '(statement)')

    def store(self, t, v, env):
        if isinstance(t, ast.Name):
            env[t.id] = v
        elif isinstance(t, (ast.Tuple, ast.List)):
            vs = list(v)
            if len(vs) != len(t.elts):
                self.bad(t)
            for te, ve in zip(t.elts, vs):
                self.store(te, ve, env)
        elif isinstance(t, ast.Subscript) and isinstance(t.value, ast.Name):
            box = self.mutable(t.value, env)
            try:
                box[self.expr(t.slice, env)] = v
            except (IndexError, TypeError) as ex:
                self.bad(t, '(%s)' % type(ex).__name__)
        else:
            self.bad(t, '(store target)')

    def mutable(self, name_node, env):
        """The dict/list a name is bound to by an evaluated statement (never a folded constant: those are shared)."""
        for scope in (env, self.genv):
            if name_node.id in scope:
                if isinstance(scope[name_node.id], (dict, list)):
                    return scope[name_node.id]
                break
        self.bad(name_node, '(not a dict/list built by the evaluated statements)')

    def iterate(self, it, node):
        if isinstance(it, (str, bytes, tuple, list, range, dict)):
            return list(it)
        if isinstance(it, frozenset):
            try:
                return sorted(it)
            except TypeError:
                return list(it)
        self.bad(node, '(iterable)')

    # ----------------------------------------------------------- expressions
    def binop(self, op, l, r, node):
        try:
            if isinstance(op, ast.Add):
                return l + r
            if isinstance(op, ast.Mod):
                return l % r
            if isinstance(op, ast.Mult):
                return l * r
            if isinstance(op, ast.Sub):
                return l - r
            if isinstance(op, ast.BitOr):
                return l | r
            if isinstance(op, ast.BitAnd):
                return l & r
            if isinstance(op, ast.BitXor):
                return l ^ r
            if isinstance(op, ast.FloorDiv):
                return l // r
            if isinstance(op, ast.RShift):
                return l >> r
            if isinstance(op, ast.LShift) and isinstance(r, int) and r < 64:
                return l << r
        except Exception as e:
            self.bad(node, '(%s)' % type(e).__name__)
        self.bad(node, '(operator)')

    def expr(self, e, env):
        self._tick(e)
        if isinstance(e, ast.Constant):
            return e.value
        if isinstance(e, ast.Name):
            if e.id in env:
                return env[e.id]
            if e.id in self.genv:
                return self.genv[e.id]
            v = self.p.fold(self.m, e, None, None)
            if v is UNKNOWN:
                q = self.p.resolve_expr(self.m, e, None)
                if q in self.p.funcs:
                    return ('func', self.p.funcs[q])
                # a module constant the folder does not read (a comprehension, a call): evaluate its one binding on demand
                if e.id in self.m.consts and e.id not in self._lazy and _bound_once(self.m, e.id):
                    self._lazy.add(e.id)
                    try:
                        return self.expr(self.m.consts[e.id], {})
                    finally:
                        self._lazy.discard(e.id)
                self.bad(e, '(unbound name)')
            return v
        if isinstance(e, ast.BinOp):
            return self.binop(e.op, self.expr(e.left, env), self.expr(e.right, env), e)
        if isinstance(e, ast.UnaryOp):
            v = self.expr(e.operand, env)
            if isinstance(e.op, ast.Not):
                return not v
            if isinstance(e.op, ast.USub) and isinstance(v, (int, float)):
                return -v
            self.bad(e)
        if isinstance(e, ast.BoolOp):
            v = None
            for x in e.values:
                v = self.expr(x, env)
                if isinstance(e.op, ast.And) and not v:
                    return v
                if isinstance(e.op, ast.Or) and v:
                    return v
            return v
        if isinstance(e, ast.IfExp):
            return self.expr(e.body if self.expr(e.test, env) else e.orelse, env)
        if isinstance(e, ast.Compare):
            l = self.expr(e.left, env)
            for op, c in zip(e.ops, e.comparators):
                r = self.expr(c, env)
                try:
                    if isinstance(op, ast.In):
                        ok = l in r
                    elif isinstance(op, ast.NotIn):
                        ok = l not in r
                    elif isinstance(op, ast.Eq):
                        ok = l == r
                    elif isinstance(op, ast.NotEq):
                        ok = l != r
                    elif isinstance(op, ast.Lt):
                        ok = l < r
                    elif isinstance(op, ast.LtE):
                        ok = l <= r
                    elif isinstance(op, ast.Gt):
                        ok = l > r
                    elif isinstance(op, ast.GtE):
                        ok = l >= r
                    elif isinstance(op, ast.Is):
                        ok = l is r
                    elif isinstance(op, ast.IsNot):
                        ok = l is not r
                    else:
                        self.bad(e)
                except TypeError:
                    self.bad(e, '(TypeError)')
                if not ok:
                    return False
                l = r
            return True
        if isinstance(e, (ast.Tuple, ast.List, ast.Set)):
            vs = []
            for x in e.elts:
                if isinstance(x, ast.Starred):
                    vs.extend(self.iterate(self.expr(x.value, env), x))
                else:
                    vs.append(self.expr(x, env))
            return tuple(vs) if isinstance(e, ast.Tuple) else (vs if isinstance(e, ast.List) else frozenset(vs))
        if isinstance(e, ast.Dict):
            out = {}
            for k, v in zip(e.keys, e.values):
                if k is None:
                    d = self.expr(v, env)
                    if not isinstance(d, dict):
                        self.bad(e, '(** of a non-dict)')
                    out.update(d)
                else:
                    out[self.expr(k, env)] = self.expr(v, env)
            return out
        if isinstance(e, ast.Subscript):
            v = self.expr(e.value, env)
            try:
                if isinstance(e.slice, ast.Slice):
                    lo = self.expr(e.slice.lower, env) if e.slice.lower is not None else None
                    hi = self.expr(e.slice.upper, env) if e.slice.upper is not None else None
                    st = self.expr(e.slice.step, env) if e.slice.step is not None else None
                    return v[lo:hi:st]
                return v[self.expr(e.slice, env)]
            except (KeyError, IndexError, TypeError) as ex:
                self.bad(e, '(%s)' % type(ex).__name__)
        if isinstance(e, ast.JoinedStr):
            out = []
            for part in e.values:
                if isinstance(part, ast.Constant):
                    out.append(str(part.value))
                elif isinstance(part, ast.FormattedValue):
                    v = self.expr(part.value, env)
                    if part.conversion == 114:
                        v = repr(v)
                    elif part.conversion == 115:
                        v = str(v)
                    elif part.conversion != -1:
                        self.bad(e)
                    spec = self.expr(part.format_spec, env) if part.format_spec is not None else ''
                    try:
                        out.append(format(v, spec))
                    except Exception:
                        self.bad(e, '(format)')
                else:
                    self.bad(e)
            return ''.join(out)
        if isinstance(e, (ast.ListComp, ast.SetComp, ast.GeneratorExp, ast.DictComp)):
            return self.comp(e, env)
        if isinstance(e, ast.Attribute):
            if e.attr == '__getitem__':
                v = self.expr(e.value, env)
                if isinstance(v, (dict, list, tuple)):
                    return _Getitem(v)
            v = self.p.fold(self.m, e, None, None)
            if v is not UNKNOWN:
                return v
            q = self.p.resolve_expr(self.m, e, None)
            if q in _STDLIB_CONSTS:
                return _STDLIB_CONSTS[q]
            self.bad(e, '(attribute)')
        if isinstance(e, ast.Call):
            return self.call(e, env)
        self.bad(e, '(expression)')

    def comp(self, e, env):
        results = []

        def rec(i, env2):
            if i == len(e.generators):
                if isinstance(e, ast.DictComp):
                    results.append((self.expr(e.key, env2), self.expr(e.value, env2)))
                else:
                    results.append(self.expr(e.elt, env2))
                return
            g = e.generators[i]
            if g.is_async:
                self.bad(e)
            for item in self.iterate(self.expr(g.iter, env2), e):
                env3 = dict(env2)
                self.store(g.target, item, env3)
                if all(self.expr(c, env3) for c in g.ifs):
                    rec(i + 1, env3)

        rec(0, dict(env))
        if isinstance(e, ast.DictComp):
            return dict(results)
        if isinstance(e, ast.SetComp):
            return frozenset(results)
        return results

    def call(self, e, env):
        if any(isinstance(a, ast.Starred) for a in e.args) or any(k.arg is None for k in e.keywords):
            self.bad(e, '(starred)')
        f = e.func
        q = None
        base = _base_name(f)
        if base is not None and base not in env and base not in self.genv:
            q = self.p.resolve_expr(self.m, f, None)
        if e.keywords and not (isinstance(f, ast.Attribute) and f.attr in ('format', 'encode', 'decode', 'to_bytes')) and q not in _KW_CALLS:
            self.bad(e, '(keywords)')
        args = [self.expr(a, env) for a in e.args]
        kw = {k.arg: self.expr(k.value, env) for k in e.keywords}
        try:
            if q in _PURE_CALLS:
                return _PURE_CALLS[q](*args, **kw)
            if isinstance(f, ast.Name) and q is not None:
                if q in self.p.funcs:
                    return self.call_func(self.p.funcs[q], args)
                self.bad(e, '(callee)')
            if isinstance(f, ast.Attribute):
                recv = self.expr(f.value, env)
                if isinstance(recv, str) and f.attr in _STR_METHODS:
                    if f.attr == 'encode':
                        codec = args[0] if args else kw.get('encoding', 'utf-8')
                        if str(codec).lower().replace('_', '-') not in ('utf-8', 'utf8', 'ascii', 'latin-1', 'latin1'):
                            self.bad(e, '(codec)')
                        return recv.encode(codec)
                    return getattr(recv, f.attr)(*args, **kw)
                if isinstance(recv, bytes) and f.attr in _BYTES_METHODS:
                    if f.attr == 'decode':
                        codec = args[0] if args else kw.get('encoding', 'utf-8')
                        if str(codec).lower().replace('_', '-') not in ('utf-8', 'utf8', 'ascii', 'latin-1', 'latin1') or len(args) > 1 or 'errors' in kw:
                            self.bad(e, '(codec)')
                        return recv.decode(codec)
                    return getattr(recv, f.attr)(*args)
                if isinstance(recv, int) and not isinstance(recv, bool) and f.attr == 'to_bytes':
                    return recv.to_bytes(*args, **kw)
                if isinstance(recv, dict) and f.attr in ('items', 'keys', 'values') and not args:
                    return list(getattr(recv, f.attr)())
                if isinstance(recv, dict) and f.attr in ('get', 'copy'):
                    return getattr(recv, f.attr)(*args)
                if isinstance(recv, (list, tuple)) and f.attr in ('index', 'count'):
                    return getattr(recv, f.attr)(*args)
                if isinstance(recv, list) and f.attr == 'copy' and not args:
                    return list(recv)
                # in-place construction: only on a dict/list the evaluated statements built themselves
                if isinstance(recv, (dict, list)) and isinstance(f.value, ast.Name) and self.mutable(f.value, env) is recv:
                    if isinstance(recv, dict) and f.attr in ('update', 'setdefault', '__setitem__', 'pop', 'clear'):
                        return getattr(recv, f.attr)(*args)
                    if isinstance(recv, list) and f.attr in ('append', 'extend', 'insert', 'pop', 'clear', 'reverse', 'sort'):
                        return getattr(recv, f.attr)(*args)
            self.bad(e, '(call)')
        except UnknownIdiom:
            raise
        except Exception as ex:
            self.bad(e, '(%s: %s)' % (type(ex).__name__, ex))


def _bound_once(m, name: str) -> bool:
    """`name` is bound by exactly one top-level statement of the module and never mutated in place there."""
    n = 0
    for st in m.tree.body:
        if isinstance(st, (ast.FunctionDef, ast.AsyncFunctionDef, ast.ClassDef)):
            if st.name == name:
                n += 1
            continue
        if name in _top_writes(st):
            n += 1
    return n == 1


def _product(*its, repeat=1):
    import itertools
    return list(itertools.product(*its, repeat=repeat))


def _chain(*its):
    out = []
    for it in its:
        out.extend(it)
    return out


def _binascii(name):
    import binascii
    return getattr(binascii, name)


def _struct_pack(fmt, *vals):
    import struct
    return struct.pack(fmt, *vals)


# side-effect-free callables the evaluator may apply to constants
_PURE_CALLS = {
    'builtins.chr': chr, 'builtins.ord': ord, 'builtins.int': int, 'builtins.bytes': bytes, 'builtins.str': str,
    'builtins.len': len, 'builtins.range': range, 'builtins.format': format, 'builtins.bool': bool,
    'builtins.frozenset': frozenset, 'builtins.set': frozenset, 'builtins.tuple': tuple, 'builtins.list': list,
    'builtins.dict': dict, 'builtins.hex': hex, 'builtins.zip': lambda *a: list(zip(*a)),
    'builtins.enumerate': lambda it, start=0: list(enumerate(it, start)), 'builtins.sorted': lambda it: sorted(it),
    'builtins.reversed': lambda it: list(reversed(it)), 'builtins.divmod': divmod, 'builtins.abs': abs, 'builtins.min': min,
    'builtins.max': max, 'builtins.sum': sum, 'builtins.repr': repr, 'builtins.oct': oct, 'builtins.bin': bin,
    'builtins.bytes.fromhex': bytes.fromhex, 'builtins.int.to_bytes': int.to_bytes, 'builtins.int.from_bytes': int.from_bytes,
    'builtins.dict.fromkeys': dict.fromkeys, 'builtins.str.upper': str.upper, 'builtins.str.lower': str.lower,
    'builtins.bytes.upper': bytes.upper, 'builtins.bytes.lower': bytes.lower, 'builtins.str.join': str.join,
    'itertools.product': _product, 'itertools.chain': _chain,
    'binascii.unhexlify': _binascii('unhexlify'), 'binascii.a2b_hex': _binascii('a2b_hex'),
    'binascii.hexlify': _binascii('hexlify'), 'binascii.b2a_hex': _binascii('b2a_hex'),
    'struct.pack': _struct_pack,
}
_KW_CALLS = ('itertools.product', 'builtins.int', 'builtins.int.to_bytes', 'builtins.int.from_bytes', 'builtins.enumerate', 'builtins.dict')
_STR_METHODS = ('format', 'upper', 'lower', 'encode', 'join', 'zfill', 'strip', 'rjust', 'ljust', 'lstrip', 'rstrip', 'swapcase', 'casefold',
                'title', 'capitalize', 'isalpha', 'isdigit', 'isalnum', 'isupper', 'islower', 'startswith', 'endswith', 'replace', 'split',
                'index', 'find', 'count')
_BYTES_METHODS = ('upper', 'lower', 'hex', 'join', 'decode', 'swapcase', 'zfill', 'rjust', 'title', 'capitalize', 'isalpha', 'isdigit',
                  'isupper', 'islower', 'replace', 'startswith', 'endswith')
_STDLIB_CONSTS = {
    'string.hexdigits': '0123456789abcdefABCDEF', 'string.digits': '0123456789', 'string.octdigits': '01234567',
    'string.ascii_lowercase': 'abcdefghijklmnopqrstuvwxyz', 'string.ascii_uppercase': 'ABCDEFGHIJKLMNOPQRSTUVWXYZ',
    'string.ascii_letters': 'abcdefghijklmnopqrstuvwxyzABCDEFGHIJKLMNOPQRSTUVWXYZ',
}
_IN_PLACE = ('update', 'setdefault', '__setitem__', '__delitem__', 'pop', 'popitem', 'clear', 'append', 'extend', 'insert', 'remove',
             'add', 'discard', 'sort', 'reverse')


def _base_name(e) -> Optional[str]:
    while isinstance(e, (ast.Subscript, ast.Attribute)):
        e = e.value
    return e.id if isinstance(e, ast.Name) else None


def _top_writes(st) -> Set[str]:
    """Module-level names a top-level statement binds, unbinds or may change in place
    (item/attribute stores, mutating methods, being handed to a call made for its effect)."""
    out: Set[str] = set()
    if isinstance(st, (ast.FunctionDef, ast.AsyncFunctionDef, ast.ClassDef, ast.Import, ast.ImportFrom)):
        return out
    scoped = {id(y) for x in ast.walk(st) if isinstance(x, ast.comprehension) for y in ast.walk(x.target)}   # comprehension variables
    for x in ast.walk(st):
        if isinstance(x, ast.Name) and isinstance(x.ctx, (ast.Store, ast.Del)):
            if id(x) not in scoped:
                out.add(x.id)
        elif isinstance(x, (ast.Subscript, ast.Attribute)) and isinstance(x.ctx, (ast.Store, ast.Del)):
            b = _base_name(x)
            if b:
                out.add(b)
        elif isinstance(x, ast.Call) and isinstance(x.func, ast.Attribute) and x.func.attr in _IN_PLACE and isinstance(x.func.value, ast.Name):
            out.add(x.func.value.id)
        elif isinstance(x, ast.Expr) and isinstance(x.value, ast.Call):
            for a in list(x.value.args) + [k.value for k in x.value.keywords]:
                if isinstance(a, ast.Name):
                    out.add(a.id)
    return out


def _module_value(p, func: Func, name: str):
    """The value a module-level name has once the module is imported: every
    top-level statement that binds it, fills it in place, or builds something
    those statements read (transitively) is evaluated, in source order, by the
    constant evaluator.  UnknownIdiom when a statement of that slice is outside
    the evaluator's language, or when a function of the module changes the
    name later (global rebinding / in-place mutation): then import time is not
    the whole story."""
    m = func.module
    body = list(m.tree.body)
    writes = [(_top_writes(st), st) for st in body]
    bound = set().union(*[w for (w, _s) in writes]) if writes else set()
    if name not in bound:
        raise AnchorError('%s.%s not found' % (m.name, name))
    relevant = {name}
    marked: Set[int] = set()
    changed = True
    while changed:
        changed = False
        for w, st in writes:
            if id(st) in marked or not (w & relevant):
                continue
            marked.add(id(st))
            changed = True
            relevant |= w
            relevant |= {x.id for x in ast.walk(st) if isinstance(x, ast.Name) and isinstance(x.ctx, ast.Load) and x.id in bound}
    for g in m.functions.values():
        stack = [g]
        while stack:
            h = stack.pop()
            stack.extend(h.nested.values())
            for x in ast.walk(h.node):
                if isinstance(x, ast.Global) and name in x.names:
                    raise UnknownIdiom('%s rebinds the module-level %s at run time' % (h.qual, name))
                if (isinstance(x, (ast.Subscript, ast.Attribute)) and isinstance(x.ctx, (ast.Store, ast.Del)) and _base_name(x) == name) or (
                        isinstance(x, ast.Call) and isinstance(x.func, ast.Attribute) and x.func.attr in _IN_PLACE
                        and isinstance(x.func.value, ast.Name) and x.func.value.id == name):
                    if name not in _stored_names(h.node):
                        raise UnknownIdiom('%s changes the module-level %s in place at run time: %s' % (h.qual, name, short(x, 60)))
    ev = _Ev(p, func)
    env = ev.genv
    for st in body:
        if id(st) in marked:
            ev.stmt(st, env)
    if name not in env:
        raise UnknownIdiom('%s.%s is unbound after the module body' % (m.name, name))
    return env[name]


# ---------------------------------------------------------------------------
# the encoder factory under its four configurations
# ---------------------------------------------------------------------------

def _param_default(fn: Func, name: str) -> Optional[ast.AST]:
    a = fn.node.args
    pos = [x.arg for x in a.posonlyargs + a.args]
    if name in pos:
        k = pos.index(name) - (len(pos) - len(a.defaults))
        return a.defaults[k] if k >= 0 else None
    for ko, kd in zip(a.kwonlyargs, a.kw_defaults):
        if ko.arg == name:
            return kd
    return None


_CALLS_OF_CACHE: Dict[int, Optional[list]] = {}


def _calls_of(p, fn: Func) -> Optional[List[ast.Call]]:
    """Every call of the module-level function `fn` in the package; None when `fn` is also referred to other than as the
    callee of a call (handed on as a value, aliased, wrapped by partial(): its arguments are then not all in sight)."""
    key = id(fn.node)
    if key in _CALLS_OF_CACHE:
        return _CALLS_OF_CACHE[key]
    short_name = fn.qual.rpartition('.')[2]
    calls: Optional[List[ast.Call]] = []
    for m in p.modules.values():
        callees = {}
        for n in ast.walk(m.tree):
            if isinstance(n, ast.Call):
                callees[id(n.func)] = n
        for n in ast.walk(m.tree):
            hit = (isinstance(n, ast.Name) and n.id == short_name) or (isinstance(n, ast.Attribute) and n.attr == short_name)
            if not hit or not isinstance(n.ctx, ast.Load):
                continue        # (an import of the name is no use of it: the uses in that module resolve to fn below)
            if p.resolve_expr(m, n, None) != fn.qual:
                continue
            c = callees.get(id(n))
            if c is None:
                calls = None
                break
            calls.append(c)
        if calls is None:
            break
    _CALLS_OF_CACHE[key] = calls
    return calls


def _unpassed_defaults(p, fn: Func, names: List[str]) -> Dict[str, ast.AST]:
    """Those of the parameters `names` of `fn` that have a default and that no call of `fn` anywhere in the package
    passes (by position, by keyword, or possibly through * / **) -> their default expression."""
    calls = _calls_of(p, fn)
    if calls is None:
        return {}
    a = fn.node.args
    pos = [x.arg for x in a.posonlyargs + a.args]
    out: Dict[str, ast.AST] = {}
    for nm in names:
        d = _param_default(fn, nm)
        if d is None:
            continue
        passed = False
        for c in calls:
            if any(isinstance(x, ast.Starred) for x in c.args) or any(k.arg is None for k in c.keywords):
                passed = True
            elif any(k.arg == nm for k in c.keywords):
                passed = True
            elif nm in pos and len(c.args) > pos.index(nm):
                passed = True
        if not passed:
            out[nm] = d
    return out


def _cosmetic_params(fac: Func, enc: Func, extras: List[str]) -> Dict[str, ast.AST]:
    """Parameters of the encoder factory beyond (is_value, check_is_escaped) -> their default expression.  Accepted only
    when they have a default and, by def-use, reach nothing but attribute stores on the returned nested function
    (`encoder.__name__ = name`) and `is None` / truth tests that guard nothing but such stores: then the configuration
    of the encoder is a function of the first two parameters alone.  Anything else is an idiom this rule cannot read."""
    if not extras:
        return {}
    a = fac.node.args
    if a.vararg or a.kwarg or a.kwonlyargs or a.posonlyargs:
        raise UnknownIdiom('%s: signature %s' % (fac.qual, short(a, 80)))
    names = [x.arg for x in a.args]
    out: Dict[str, ast.AST] = {}
    for nm in extras:
        k = names.index(nm) - (len(names) - len(a.defaults))
        if k < 0:
            raise UnknownIdiom('%s takes %s: the additional parameter %s has no default' % (fac.qual, names, nm))
        out[nm] = a.defaults[k]
    parent = enclosing_map(fac.node)

    def cosmetic_store(s) -> bool:
        return isinstance(s, ast.Assign) and all(isinstance(t, ast.Attribute) and isinstance(t.value, ast.Name) and t.value.id == enc.node.name
                                                 for t in s.targets)

    def cosmetic_block(stmts) -> bool:
        return all(cosmetic_store(s) or isinstance(s, ast.Pass) or (isinstance(s, ast.If) and cosmetic_block(s.body) and cosmetic_block(s.orelse))
                   for s in stmts)

    for x in ast.walk(fac.node):
        if isinstance(x, ast.Name) and x.id in out and isinstance(x.ctx, (ast.Store, ast.Del)):
            raise UnknownIdiom('%s re-binds its additional parameter %s' % (fac.qual, x.id))
        if not (isinstance(x, ast.Name) and x.id in out and isinstance(x.ctx, ast.Load)):
            continue
        cur, up = x, parent.get(id(x))
        while up is not None and not isinstance(up, ast.stmt):
            cur, up = up, parent.get(id(up))
        ok = False
        if cosmetic_store(up) and any(y is x for y in ast.walk(up.value)):
            ok = True
        elif isinstance(up, ast.If) and any(y is x for y in ast.walk(up.test)) and cosmetic_block(up.body) and cosmetic_block(up.orelse):
            ok = True
        if not ok:
            raise UnknownIdiom('%s takes %s: the additional parameter %s is used in %s (more than naming the returned function)' % (
                fac.qual, names, x.id, short(up, 80)))
    return out


class _Factory:
    """`_create_str_encoder(is_value, check_is_escaped)` evaluated up to the
    nested encoder: closure environment, char table, allowed alphabet."""

    def __init__(self, run, is_value: bool, check: bool):
        p = run.project
        self.f = p.func(URI + '._create_str_encoder')
        params = [a.arg for a in self.f.node.args.args]
        if len(params) < 2:
            raise UnknownIdiom('%s takes %s' % (self.f.qual, params))
        self.p_value, self.p_check = params[:2]
        self.enc = single(list(self.f.nested.values()), 'nested encoder function', self.f.qual)
        ev = _Ev(p, self.f)
        env = {self.p_value: is_value, self.p_check: check}
        # further parameters (positional or keyword-only).  One that has a default and that no call of the factory in
        # the package passes (the factory is private and is only ever called, never handed on as a value) HAS its default
        # in every encoder the package builds: it is bound to it and takes part in the evaluation like a local constant.
        extras = params[2:] + [x.arg for x in self.f.node.args.kwonlyargs]
        fixed = _unpassed_defaults(p, self.f, extras) if extras else {}
        for name, dflt in fixed.items():
            env[name] = ev.expr(dflt, {})
        # the others: only with a default, and only where they cannot take part in what the encoder decides
        for name, dflt in _cosmetic_params(self.f, self.enc, [x for x in extras if x not in fixed]).items():
            env[name] = ev.expr(dflt, {})
        try:
            ev.block(self.f.node.body, env)
            raise UnknownIdiom('%s does not return' % self.f.qual)
        except _Return as r:
            if r.value != ('closure', self.enc.node):
                raise UnknownIdiom('%s does not return its nested encoder' % self.f.qual)
        self.env = env
        self.ev = ev
        # the char tables and the alphabets they were built from
        ce = p.func(URI + '._create_char_encoder')
        self.tables: Dict[str, Tuple[dict, str]] = {}
        for k, v in env.items():
            if not isinstance(v, _Getitem):
                continue
            alpha = None
            for stmt, val in _assignments(self.f.node, k):
                if isinstance(val, ast.Call) and p.resolve_callable(self.f, val.func) is ce and len(val.args) == 1 and not val.keywords:
                    alpha = ev.expr(val.args[0], env)
            if not isinstance(alpha, str):
                raise UnknownIdiom('%s: alphabet passed to _create_char_encoder for %s' % (self.f.qual, k))
            self.tables[k] = (v.table, alpha)
        if not self.tables:
            raise AnchorError('%s: no char-encoder table in the closure' % self.f.qual)
        # the table of the configuration: the most restrictive one.  Whatever another table lets through beyond it
        # reaches the output verbatim and is judged like a verbatim part on the path where that table is used (R1).
        least = [k for k, (_t, a) in self.tables.items() if all(set(a) <= set(a2) for (_t2, a2) in self.tables.values())]
        if not least:
            raise UnknownIdiom('%s: the alphabets of the char-encoder tables %s are not nested' % (self.f.qual, sorted(self.tables)))
        self.table_var = sorted(least)[0]
        self.table, self.allowed = self.tables[self.table_var]


def _factories(run):
    key = '_c10_factories'
    cache = getattr(run, key, None)
    if cache is None:
        cache = {(v, c): _Factory(run, v, c) for v in (False, True) for c in (False, True)}
        setattr(run, key, cache)
    return cache


def _show(chars) -> str:
    return ''.join(sorted(chars))


def r1_alphabets(run):
    p = run.project
    fs = _factories(run)
    f0 = fs[(False, False)]
    run.use(f0.f)
    run.use(p.func(URI + '._create_char_encoder'))
    for is_value in (False, True):
        kind = 'value' if is_value else 'whole-URI'
        want = RFC_UNRESERVED if is_value else (RFC_UNRESERVED | RFC_RESERVED)
        for check in (False, True):
            fa = fs[(is_value, check)]
            got = frozenset(fa.allowed)
            tag = '%s encoder%s' % (kind, ' (check-escaped)' if check else '')
            cons = 'allowed(%s, %s)' % (is_value, check)
            run.check(got == want, 'the %s passes exactly RFC 3986 %s through unescaped' % (
                tag, 'unreserved characters' if is_value else 'unreserved and reserved characters'), fa.f, cons,
                witness=['extra: %r' % _show(got - want), 'missing: %r' % _show(want - got)],
                runtime_witness='a string containing %r' % (_show(got ^ want)[:8]))
            run.check('%' not in got, "'%%' is never passed through by the %s" % tag, fa.f, cons + " has no '%'",
                      runtime_witness="decode(encode('100%41')) == '100A'")
            if is_value:
                run.check('+' not in got, "'+' is escaped by the %s" % tag, fa.f, cons + " has no '+'",
                          runtime_witness="decode(encode_value('a+b')) == 'a b'")
    # what reaches the output without passing through the char table
    _r1_verbatim(run, fs)


def _utf8_encode_of(e, name: str) -> Optional[bool]:
    """e is `<name>.encode(...)`: True if the codec is UTF-8 (strict), False
    if another codec; None if e has another shape."""
    if not (isinstance(e, ast.Call) and isinstance(e.func, ast.Attribute) and e.func.attr == 'encode'
            and isinstance(e.func.value, ast.Name) and e.func.value.id == name):
        return None
    codec, errors = 'utf-8', 'strict'
    args = list(e.args)
    if args:
        codec = args[0].value if isinstance(args[0], ast.Constant) else None
    if len(args) > 1:
        errors = args[1].value if isinstance(args[1], ast.Constant) else None
    for k in e.keywords:
        if k.arg == 'encoding':
            codec = k.value.value if isinstance(k.value, ast.Constant) else None
        elif k.arg == 'errors':
            errors = k.value.value if isinstance(k.value, ast.Constant) else None
    if codec is None or errors is None:
        return None
    return codec in UTF8 and errors == 'strict'


def _expand(f: Func, e, depth=4):
    """Follow a local with exactly one plain assignment."""
    while depth > 0 and isinstance(e, ast.Name):
        binds = _assignments(f.node, e.id)
        if len(binds) == 1 and binds[0][1] is not None:
            e = binds[0][1]
            depth -= 1
        else:
            break
    return e


# ---------------------------------------------------------------------------
# path facts: a small forward dataflow over the non-exceptional edges
# ---------------------------------------------------------------------------

def _forward(cfg, init, transfer, join, budget=20000):
    """State at every node reachable over non-exceptional edges.
    transfer(state, a, b, label) -> state after the edge, None: edge infeasible."""
    state = {cfg.entry: init}
    work = [cfg.entry]
    while work:
        budget -= 1
        if budget < 0:
            raise UnknownIdiom('%s: path facts do not converge' % cfg.func.qual)
        a = work.pop()
        for (b, l) in cfg.succ.get(a, ()):
            if l == 'exc':
                continue
            sb = transfer(state[a], a, b, l)
            if sb is None:
                continue
            old = state.get(b)
            new = sb if old is None else join(old, sb)
            if new != old:
                state[b] = new
                work.append(b)
    return state


def _restrict(expr, truth: bool, state, atom, join):
    """State after `expr` evaluated to `truth` (None: cannot happen).  and/or
    with short-circuit order; `atom(e, truth, state)` handles the leaves and
    returns NotImplemented for a leaf it has no opinion about *as a whole*
    (then not/and/or are taken apart)."""
    r = atom(expr, truth, state, False)
    if r is not NotImplemented:
        return r
    if isinstance(expr, ast.UnaryOp) and isinstance(expr.op, ast.Not):
        return _restrict(expr.operand, not truth, state, atom, join)
    if isinstance(expr, ast.BoolOp):
        if isinstance(expr.op, ast.And) == truth:
            for v in expr.values:       # every operand has the value `truth`
                state = _restrict(v, truth, state, atom, join)
                if state is None:
                    return None
            return state
        out = None                      # some operand has it, those before it have the other value
        pre = state
        for v in expr.values:
            if pre is None:
                break
            s = _restrict(v, truth, pre, atom, join)
            if s is not None:
                out = s if out is None else join(out, s)
            pre = _restrict(v, not truth, pre, atom, join)
        return out
    return atom(expr, truth, state, True)


_NC = object()     # "not a constant of the configuration"
ALL_CHARS = frozenset(chr(i) for i in range(256)) | {'\u0100'}   # U+0100 stands for every character above Latin-1


def _stored_names(fnode) -> Set[str]:
    a = fnode.args
    out = {x.arg for x in a.posonlyargs + a.args + a.kwonlyargs}
    for x in (a.vararg, a.kwarg):
        if x is not None:
            out.add(x.arg)
    for n in walk_no_nested(fnode):
        if isinstance(n, ast.Name) and isinstance(n.ctx, (ast.Store, ast.Del)):
            out.add(n.id)
    return out


def _derived_locals(fnode, seeds: Set[str]) -> Set[str]:
    """Locals whose value depends on the names in `seeds`: through the
    expression assigned, or because the assignment sits under an if/while/for
    whose condition (iterable) depends on them."""
    from .common import ancestors
    parent = enclosing_map(fnode)
    names = _stored_names(fnode) - seeds
    derived: Set[str] = set()

    def dep(e) -> bool:
        return e is not None and any(isinstance(x, ast.Name) and x.id in derived | seeds for x in ast.walk(e))

    changed = True
    while changed:
        changed = False
        for name in sorted(names - derived):
            for (stmt, val) in _assignments(fnode, name):
                srcs = [val] if val is not None else [getattr(stmt, 'value', None), getattr(stmt, 'iter', None)]
                hit = any(dep(x) for x in srcs)
                for anc in ancestors(stmt, parent):
                    if hit or anc is fnode:
                        break
                    if isinstance(anc, (ast.If, ast.While, ast.IfExp)):
                        hit = dep(anc.test)
                    elif isinstance(anc, (ast.For, ast.AsyncFor)):
                        hit = dep(anc.iter)
                if hit:
                    derived.add(name)
                    changed = True
                    break
    return derived


def _return_parts(enc: Func, up: str, table_vars, v) -> List[tuple]:
    """The value a nested encoder returns, as a concatenation of
    ('whole', node)  the input itself,
    ('raw', node)    a slice up[lo:hi] of the input, verbatim,
    ('enc', bytes expression, node, TABLE)   ''.join(map(TABLE, BYTES)) / ''.join(TABLE(b) for b in BYTES)
    where TABLE is one of the closure's char tables `table_vars`."""
    if isinstance(table_vars, str):
        table_vars = (table_vars,)
    out: List[tuple] = []

    def add(e, depth):
        if isinstance(e, ast.BinOp) and isinstance(e.op, ast.Add):
            add(e.left, depth)
            add(e.right, depth)
            return
        if isinstance(e, ast.Constant) and e.value == '':
            return
        if isinstance(e, ast.Name):
            if e.id == up:
                out.append(('whole', e))
                return
            e2 = _expand(enc, e, 1)
            if e2 is e or depth > 4:
                raise UnknownIdiom('%s: encoded return %s (local %s)' % (enc.qual, short(v, 80), e.id))
            add(e2, depth + 1)
            return
        if isinstance(e, ast.Subscript) and isinstance(e.value, ast.Name) and e.value.id == up and isinstance(e.slice, ast.Slice):
            out.append(('raw', e))
            return
        # ''.join(map(TABLE, BYTES)) / ''.join(TABLE(b) for b in BYTES)
        if not (isinstance(e, ast.Call) and isinstance(e.func, ast.Attribute) and e.func.attr == 'join'
                and isinstance(e.func.value, ast.Constant) and e.func.value.value == '' and len(e.args) == 1 and not e.keywords):
            raise UnknownIdiom('%s: encoded return %s' % (enc.qual, short(v, 80)))
        a = e.args[0]
        src = fn = None
        if isinstance(a, ast.Call) and isinstance(a.func, ast.Name) and a.func.id == 'map' and len(a.args) == 2:
            fn, src = a.args
        elif isinstance(a, (ast.GeneratorExp, ast.ListComp)) and len(a.generators) == 1 and not a.generators[0].ifs \
                and isinstance(a.elt, ast.Call) and len(a.elt.args) == 1 and isinstance(a.elt.args[0], ast.Name) \
                and isinstance(a.generators[0].target, ast.Name) and a.elt.args[0].id == a.generators[0].target.id:
            fn, src = a.elt.func, a.generators[0].iter
        if not (isinstance(fn, ast.Name) and fn.id in table_vars):
            raise UnknownIdiom('%s: encoded return %s does not map the char table' % (enc.qual, short(v, 80)))
        out.append(('enc', _expand(enc, src), e, fn.id))

    if v is None:
        raise UnknownIdiom('%s: bare return' % enc.qual)
    add(v, 0)
    if not out:
        raise UnknownIdiom('%s: encoded return %s' % (enc.qual, short(v, 80)))
    return out


def _encoded_name(e) -> Optional[str]:
    """e is `<name>.encode(...)` -> name."""
    if isinstance(e, ast.Call) and isinstance(e.func, ast.Attribute) and e.func.attr == 'encode' and isinstance(e.func.value, ast.Name):
        return e.func.value.id
    return None


class _EncPaths:
    """Path facts of the nested encoder under ONE configuration of the factory
    (the closure constants are known): which characters the input can still
    contain at a node, which definitions of the "stripped head" locals reach
    it, and whether every path to it left a loop through its normal exit."""

    def __init__(self, fa: _Factory, enc: Func, cfg, up: str):
        self.fa, self.enc, self.cfg, self.up = fa, enc, cfg, up
        self.locals = _stored_names(enc.node)
        if _assignments(enc.node, up):
            raise UnknownIdiom('%s rebinds its parameter %s' % (enc.qual, up))
        # locals that hold a prefix of the input: X = up.rstrip(A) | X = up
        self.defs: Dict[str, List[Tuple[str, Optional[frozenset]]]] = {}
        self.binder: Dict[int, List[Tuple[str, int]]] = {}
        for name in sorted(self.locals - {up}):
            ds = []
            for (stmt, val) in _assignments(enc.node, name):
                ds.append((stmt, self._classify_def(val)))
            if any(k[0] == 'strip' for (_s, k) in ds):
                self.defs[name] = [k for (_s, k) in ds]
                for i, (stmt, _k) in enumerate(ds):
                    self.binder.setdefault(id(stmt), []).append((name, i))
        # locals computed from the input (for the "unread test" bookkeeping)
        self.derived: Set[str] = _derived_locals(enc.node, {up})
        # token loops of the already-escaped heuristic: their tests are about the text between two '%'
        self.token_loops = []
        for n in walk_self(enc.node):
            if isinstance(n, ast.For):
                it = n.iter.value if isinstance(n.iter, ast.Subscript) else n.iter
                base = _expand(enc, it)
                if isinstance(base, ast.Call) and isinstance(base.func, ast.Attribute) and base.func.attr == 'split' \
                        and isinstance(base.func.value, ast.Name) and base.func.value.id == up:
                    self.token_loops.append(n)
        self.opaque: Set[int] = set()
        self._cur = None
        self.state = _forward(cfg, (ALL_CHARS, frozenset(), False), self._transfer, self._join)

    # ---------------------------------------------------------------- helpers
    @staticmethod
    def _mentions(e, names) -> bool:
        return any(isinstance(x, ast.Name) and x.id in names for x in ast.walk(e))

    def const(self, e):
        """Value of an expression over the closure constants / module constants."""
        if self._mentions(e, self.locals):
            return _NC
        try:
            return self.fa.ev.expr(e, dict(self.fa.env))
        except UnknownIdiom:
            return _NC

    def _strip_call(self, e) -> Optional[frozenset]:
        """e is up.rstrip(A) / up.strip(A) / up.lstrip(A) -> A"""
        if isinstance(e, ast.Call) and isinstance(e.func, ast.Attribute) and e.func.attr in ('rstrip', 'strip', 'lstrip') \
                and isinstance(e.func.value, ast.Name) and e.func.value.id == self.up and len(e.args) == 1 and not e.keywords:
            a = self.const(e.args[0])
            if isinstance(a, str):
                return frozenset(a)
        return None

    def _classify_def(self, val):
        if isinstance(val, ast.Name) and val.id == self.up:
            return ('whole', frozenset())
        if isinstance(val, ast.Call) and isinstance(val.func, ast.Attribute) and val.func.attr == 'rstrip':
            a = self._strip_call(val)
            if a is not None:
                return ('strip', a)
        return ('other', None)

    def tail_alphabet(self, name: str, defs) -> Optional[frozenset]:
        """Characters of the input after the prefix held by `name` (None: some reaching definition is not read)."""
        out = frozenset()
        reach = [i for (n, i) in defs if n == name]
        if name not in self.defs or not reach:
            return None
        for i in reach:
            kind, alpha = self.defs[name][i]
            if alpha is None:
                return None
            out |= alpha
        return out

    @staticmethod
    def _join(s1, s2):
        return (s1[0] | s2[0], s1[1] | s2[1], s1[2] and s2[2])

    # --------------------------------------------------------------- transfer
    def _transfer(self, state, a, b, l):
        n = self.cfg.node(a)
        chars, defs, acc = state
        key = id(n.ast) if n.kind == 'stmt' else (id(n.stmt) if n.kind in ('iter', 'with') and l != 'done' else None)
        for (name, i) in self.binder.get(key, ()):
            defs = frozenset(d for d in defs if d[0] != name) | {(name, i)}
        state = (chars, defs, acc)
        if n.kind == 'test' and l in ('T', 'F'):
            self._cur = n.id
            state = _restrict(n.ast, l == 'T', state, self._atom, self._join)
            if state is None:
                return None
            if isinstance(n.stmt, ast.While) and l == 'F':
                state = (state[0], state[1], True)
        elif n.kind == 'iter' and l == 'done':
            state = (chars, defs, True)
        return state

    def _falsy(self, e, state):
        """State when `e` (the input, a strip of it, a prefix local) is empty; NotImplemented if e is none of these."""
        chars, defs, acc = state
        if isinstance(e, ast.Name) and e.id == self.up:
            return (frozenset(), defs, acc)
        a = self._strip_call(e)
        if a is not None:
            return (chars & a, defs, acc)
        if isinstance(e, ast.Name) and e.id in self.defs:
            a = self.tail_alphabet(e.id, defs)
            if a is None:
                self.opaque.add(self._cur)
                return state
            return (chars & a, defs, acc)
        return NotImplemented

    def _atom(self, e, truth, state, leaf):
        flags = set(getattr(self.cfg, 'flag_refined', None) or ())
        if flags and any(isinstance(x, ast.Name) for x in ast.walk(e)) and {x.id for x in ast.walk(e) if isinstance(x, ast.Name)} <= flags \
                and all(isinstance(x, (ast.Name, ast.UnaryOp, ast.BoolOp, ast.Not, ast.And, ast.Or, ast.Load)) for x in ast.walk(e)):
            # a test of pure control flags on the flag-refined graph: the outcomes the valuation rules out are not edges
            # of the graph, and the outcome itself says nothing about the input
            return state
        c = self.const(e)
        if c is not _NC:
            try:
                return state if bool(c) == truth else None
            except Exception:
                return state
        r = self._falsy(e, state)
        if r is not NotImplemented:
            return state if truth else r
        if isinstance(e, ast.Compare) and len(e.ops) == 1:
            op, l, rr = e.ops[0], e.left, e.comparators[0]
            if isinstance(op, (ast.In, ast.NotIn)) and isinstance(rr, ast.Name) and rr.id == self.up:
                ch = self.const(l)
                if isinstance(ch, str):
                    absent = isinstance(op, ast.NotIn) == truth
                    if absent and len(ch) == 1:
                        return (state[0] - {ch}, state[1], state[2])
                    return state
            if isinstance(op, (ast.Eq, ast.NotEq)):
                for x, y in ((l, rr), (rr, l)):
                    if isinstance(y, ast.Constant) and y.value == '':
                        r = self._falsy(x, state)
                        if r is not NotImplemented:
                            return r if isinstance(op, ast.Eq) == truth else state
        if not leaf and (isinstance(e, ast.BoolOp) or (isinstance(e, ast.UnaryOp) and isinstance(e.op, ast.Not))):
            return NotImplemented
        # the already-escaped scan held by a module-level predicate H(<input>): its True outcome is the normal exit of
        # the token loop inside H (R5 decides what that requires), its False outcome says nothing
        h = _scan_helper(self.fa.ev.p, self.enc, e, self.up)
        if h is not None and _scan_true_after_loop(self.fa.ev.p, h):
            return (state[0], state[1], True) if truth else state
        # a test that is not read: remember it if it is about the input
        names = {x.id for x in ast.walk(e) if isinstance(x, ast.Name)}
        if names & ({self.up} | set(self.defs) | self.derived):
            if not self._token_test(names):
                self.opaque.add(self._cur)
        return state

    def _token_test(self, names) -> bool:
        """The current test sits in a token loop of the already-escaped heuristic and
        is about locals bound inside that loop only (the text between two '%')."""
        node = self.cfg.node(self._cur)
        about = names & ({self.up} | set(self.defs) | self.derived)
        for lp in self.token_loops:
            if any(x is node.ast for s in lp.body for x in ast.walk(s)):
                inner = set()
                for s in lp.body:
                    inner |= {x.id for x in ast.walk(s) if isinstance(x, ast.Name) and isinstance(x.ctx, ast.Store)}
                inner |= {x.id for x in ast.walk(lp.target) if isinstance(x, ast.Name)}
                if about <= inner:
                    return True
        return False

    def unread_on_paths_to(self, nid: int) -> List[int]:
        back = flow.co_reachable(self.cfg, [nid])
        return sorted(t for t in self.opaque if t in back)


def _r1_verbatim(run, fs):
    """Every character of the input that reaches the output without passing
    through the per-character table belongs to the allowed alphabet of the
    configuration; '%' is passed through only where the whole string was
    accepted by the already-escaped heuristic (R5 decides what that accepts),
    i.e. where on the path the input is known to consist of allowed
    characters and '%' only.  "Without passing through the table" covers the
    input returned as it is, verbatim slices, and a second char table whose
    alphabet is wider than the one of the configuration (what it lets
    through is verbatim output).  Witness of the last: with a table over
    allowed + '%' used whenever every %XX is well formed,
    encode_check_escaped('/report 100%20done') == '/report%20100%20done',
    which decodes to '/report 100 done'.
    Decided per configuration on the path facts of the nested encoder."""
    p = run.project
    f0 = fs[(False, False)]
    enc = f0.enc
    # flag-sensitive graph: where the for/else of the already-escaped scan is written with a boolean flag cleared before
    # each `break`, `if flag:` after the loop is reached with the flag set exactly on the paths that left the loop
    # through its normal exit (the other outcome's edge is not in the graph)
    cfg = cfg_of(enc, p, refined=True)
    run.use_cfg(cfg)
    up = single([a.arg for a in enc.node.args.args], 'parameter of the nested encoder', enc.qual)
    rets = [n for n in cfg.live_nodes() if n.kind == 'stmt' and isinstance(n.ast, ast.Return)]
    n_pass = 0
    for (is_value, check), fa in sorted(fs.items()):
        paths = _EncPaths(fa, enc, cfg, up)
        allowed = frozenset(fa.allowed)
        tag = 'is_value=%s, check_is_escaped=%s' % (is_value, check)
        sample = "encode%s%s" % ('_value' if is_value else '', '_check_escaped' if check else '')

        def verdict(n, S, whole, what_plain, construct, unread_bound=False, rw=None):
            """S: the characters the verbatim part may consist of on the paths to n."""
            chars, defs, acc = paths.state[n.id]
            where = '%s:%s' % (enc.file, n.lineno)
            wit = ['may contain: %r' % _show(S - allowed)[:40], 'allowed: %r' % _show(allowed)]
            if S <= allowed:
                run.ok(what_plain, where, construct)
                return True
            if check and acc:
                target = allowed | {'%'}
                if whole:
                    ok = S == target
                    what = ('the already-escaped shortcut applies exactly to strings over the allowed characters plus %% '
                            '(is_value=%s)' % is_value)
                else:
                    # a '%' may stay as it is only where the WHOLE input was accepted as already escaped, i.e. consists of
                    # allowed characters and (well-formed, R5) escapes only: where some other character needed encoding, a
                    # literal '%' must be encoded as well, or decode(output) is not the input
                    ok = S <= target and chars <= target
                    what = what_plain
                if not ok:
                    _unread(n, unread_bound)
                return run.check(ok, what, enc, construct, where=where,
                                 witness=['alphabet: %r' % _show(S), 'wanted: %r' % _show(target)] + (
                                     ['on this path the input may also contain %r ...: it was not accepted as a whole'
                                      % ''.join(sorted(chars - target, key=lambda c: (not (c.isprintable() and c.isascii()), c)))[:8]]
                                     if not whole and S <= target else []),
                                 runtime_witness=rw if (rw and not whole and S <= target) else "%s('%%20 x')" % sample)
            _unread(n, unread_bound)
            run.fail(what_plain, enc, construct, where=where, witness=wit, runtime_witness=rw)
            return False

        def _unread(n, unread_bound):
            if unread_bound:
                raise UnknownIdiom('%s: bounds of the verbatim slice in %s' % (enc.qual, short(n.ast, 80)))
            ts = paths.unread_on_paths_to(n.id)
            if ts:
                raise UnknownIdiom('%s: test %s' % (enc.qual, short(cfg.node(ts[0]).ast, 80)))

        for n in rets:
            if n.id not in paths.state:
                continue    # not reachable under this configuration
            chars, defs, acc = paths.state[n.id]
            parts = _return_parts(enc, up, tuple(fa.tables), n.ast.value)
            kinds = [k[0] for k in parts]
            if kinds == ['whole']:
                n_pass += 1
                verdict(n, chars, True, 'the input is returned unencoded only if every character is in the allowed set (%s)' % tag, n.ast,
                        rw="%s('a b') returns 'a b'" % sample if not (chars <= allowed | {'%'}) else "%s('100%%') returns '100%%'" % sample)
                continue
            # verbatim slices of the input
            bad = False
            for part in parts:
                if part[0] == 'whole':
                    raise UnknownIdiom('%s: return %s' % (enc.qual, short(n.ast.value, 80)))
                if part[0] == 'enc' and part[3] != fa.table_var:
                    # a second char table with a wider alphabet: what it lets through beyond the table of the
                    # configuration reaches the output verbatim.  Witness (is_value=False, check_is_escaped=True, table
                    # over allowed + '%'): encoder('/report 100%20done') == '/report%20100%20done', which decodes to
                    # '/report 100 done'.
                    wide = frozenset(fa.tables[part[3]][1])
                    good = verdict(n, chars & wide, False,
                                   "what a char table lets through unescaped beyond the allowed characters is verbatim output: a '%%' "
                                   "stays as it is only where the whole string was accepted as already escaped - where some other "
                                   "character needed encoding, '%%' is encoded too (table %s, %s)" % (part[3], tag), n.ast,
                                   rw="%s('/report 100%%20done') == '/report%%20100%%20done', which decodes to '/report 100 done'" % sample
                                   if '%' in wide else "%s passes %r through" % (sample, _show(wide - allowed)[:8]))
                    bad = bad or not good
                    continue
                if part[0] != 'raw':
                    continue
                sl = part[1].slice
                S = chars
                unread_bound = sl.step is not None
                lo = _expand(enc, sl.lower, 2) if sl.lower is not None else None
                if isinstance(lo, ast.Call) and isinstance(lo.func, ast.Name) and lo.func.id == 'len' and len(lo.args) == 1 \
                        and isinstance(lo.args[0], ast.Name) and lo.args[0].id in paths.defs:
                    a = paths.tail_alphabet(lo.args[0].id, defs)
                    if a is None:
                        raise UnknownIdiom('%s: definitions of %s reaching %s' % (enc.qual, lo.args[0].id, short(n.ast, 80)))
                    S = chars & a
                elif not (lo is None or _lin(lo) is not None and _lin(lo)[0] is None):
                    unread_bound = True
                good = verdict(n, S, False, "a part of the input that is appended to the output without passing through the character table "
                        "consists of allowed characters only; a '%%' only where the whole string was accepted as already escaped (%s)" % tag,
                        n.ast, unread_bound,
                        rw="%s('a b%%') == 'a%%20b%%'" % sample if '%' in S and S <= allowed | {'%'} else "%s('a b\\u00e9') keeps the last character raw" % sample)
                bad = bad or not good
            if bad:
                continue
            # the encoded part and the verbatim parts together are the whole input
            what = 'every character of the input is either sent through the character table or appended verbatim: nothing is dropped (%s)' % tag
            where = '%s:%s' % (enc.file, n.lineno)
            encs = [k for k in parts if k[0] == 'enc']
            name = _encoded_name(encs[0][1]) if len(encs) == 1 else None
            if name is None:
                raise UnknownIdiom('%s: bytes fed to the char table in %s' % (enc.qual, short(n.ast.value, 80)))
            if kinds == ['enc']:
                if name == up:
                    run.ok(what, where, n.ast)
                    continue
                a = paths.tail_alphabet(name, defs)
                if a is None:
                    raise UnknownIdiom('%s: %s in %s' % (enc.qual, name, short(n.ast.value, 80)))
                if not (chars & a):
                    run.ok(what, where, n.ast)
                    continue
                _unread(n, False)
                run.fail(what, enc, n.ast, where=where, witness=['%s is the input without its trailing %r' % (name, _show(chars & a)[:40])],
                         runtime_witness="%s('a b-c') == 'a%%20b'" % sample)
                continue
            if kinds == ['enc', 'raw']:
                sl = parts[1][1].slice
                lo = _expand(enc, sl.lower, 2) if sl.lower is not None else None
                if sl.upper is None and sl.step is None and isinstance(lo, ast.Call) and isinstance(lo.func, ast.Name) and lo.func.id == 'len' \
                        and len(lo.args) == 1 and isinstance(lo.args[0], ast.Name) and lo.args[0].id == name and name in paths.defs \
                        and paths.tail_alphabet(name, defs) is not None:
                    run.ok(what, where, n.ast)
                    continue
            raise UnknownIdiom('%s: how the parts of %s make up the input' % (enc.qual, short(n.ast.value, 80)))
    if not n_pass:
        raise AnchorError('%s: no pass-through return' % enc.qual)


def _hex_to_byte(run) -> Dict[bytes, bytes]:
    p = run.project
    m = p.module(URI)
    if '_HEX_TO_BYTE' not in m.consts:
        raise AnchorError('%s._HEX_TO_BYTE not found' % URI)
    cache = getattr(run, '_c10_hexmap', None)
    if cache is None:
        cache = _module_value(p, p.func(URI + '.decode'), '_HEX_TO_BYTE')
        run._c10_hexmap = cache
    if not isinstance(cache, dict):
        raise UnknownIdiom('_HEX_TO_BYTE is not a table (%s)' % type(cache).__name__)
    return cache


def r2_escape_shape(run):
    """Escape shape of the encoder, and the decoder table: whatever way
    `_HEX_TO_BYTE` is built at import time (comprehension, loops filling it,
    update()/union of part tables, dict(zip()), a helper function), the value
    it ends up with has exactly the 22 x 22 keys over [0-9A-Fa-f] (bytes), each
    mapped to the byte of that value.  A readable construction with other keys
    is a violation; only a construction outside the evaluator is exit 2.
    W: a table filled from range(256) with '%02X' and '%02x' lacks b'aB':
    decode('%aB') == '%aB', decode('%cF%80') == '%cF\ufffd'."""
    p = run.project
    fs = _factories(run)
    hexmap = _hex_to_byte(run)
    ce = p.func(URI + '._create_char_encoder')
    from types import SimpleNamespace
    rounds = []
    for is_value in (False, True):
        fa0 = fs[(is_value, False)]
        for tvar in [fa0.table_var] + sorted(set(fa0.tables) - {fa0.table_var}):     # every char table of the closure
            rounds.append((is_value, tvar, SimpleNamespace(table=fa0.tables[tvar][0], allowed=fa0.tables[tvar][1])))
    for is_value, tvar, fa in rounds:
        tag = 'is_value=%s' % is_value if tvar == fs[(is_value, False)].table_var else 'is_value=%s, table %s' % (is_value, tvar)
        t = fa.table
        run.check(set(t) == set(range(256)), 'the char encoder maps every byte value 0..255 (%s)' % tag, ce, 'table keys (%s)' % tag,
                  witness=['missing: %s' % sorted(set(range(256)) - set(t))[:8]], runtime_witness='KeyError while encoding')
        bad_id = [i for i in range(256) if i in t and chr(i) in fa.allowed and t[i] != chr(i)]
        run.check(not bad_id, 'allowed characters are emitted as themselves (%s)' % tag, ce, 'identity entries (%s)' % tag,
                  witness=['%d -> %r' % (i, t[i]) for i in bad_id[:6]])
        bad_esc = [i for i in range(256) if i in t and chr(i) not in fa.allowed and t[i] != '%%%02X' % i]
        run.check(not bad_esc, "every other byte is emitted as '%%' + two upper-case hex digits of its value (%s)" % tag, ce,
                  'escape entries (%s)' % tag, witness=['%d -> %r, wanted %r' % (i, t[i], '%%%02X' % i) for i in bad_esc[:6]],
                  runtime_witness='encode(chr(%d)) == %r' % (bad_esc[0], t[bad_esc[0]]) if bad_esc else None)
        back = [i for i in range(256) if i in t and chr(i) not in fa.allowed
                and not (isinstance(t[i], str) and t[i][:1] == '%' and hexmap.get(t[i][1:].encode('latin-1', 'replace')) == bytes([i]))]
        run.check(not back, 'every escape the encoder emits is a key of the decoder table and maps back to the same byte (%s)' % tag, ce,
                  'escape/_HEX_TO_BYTE agreement (%s)' % tag, witness=['%d -> %r' % (i, t[i]) for i in back[:6]],
                  runtime_witness='decode(encode_value(chr(%d))) differs' % back[0] if back else None)
    # decoder table: all pairs over both cases
    m = p.module(URI)
    want = {(a + b).encode(): bytes([int(a + b, 16)]) for a in HEXDIG_BOTH for b in HEXDIG_BOTH}
    node = m.const_nodes['_HEX_TO_BYTE']
    where = '%s:%d' % (m.relpath, node.lineno)
    run.check(set(hexmap) == set(want), '_HEX_TO_BYTE has a key for every pair of hex digits in both cases (22 x 22) and no other key',
              URI + '._HEX_TO_BYTE', 'key set', where=where,
              witness=['missing: %s' % sorted(set(want) - set(hexmap))[:6], 'extra: %s' % sorted(set(hexmap) - set(want))[:6]],
              runtime_witness="decode('%2f') leaves the escape undecoded")
    wrong = sorted(k for k in hexmap if k in want and hexmap[k] != want[k])
    run.check(not wrong, '_HEX_TO_BYTE maps each pair to the byte with that hexadecimal value', URI + '._HEX_TO_BYTE', 'values', where=where,
              witness=['%r -> %r' % (k, hexmap[k]) for k in wrong[:6]])
    # the encoder feeds the table with the UTF-8 bytes of the input
    fa = fs[(False, False)]
    enc = fa.enc
    run.use(enc)
    up = enc.node.args.args[0].arg
    n_enc = 0
    prefix_locals = {up}
    for name in _stored_names(enc.node) - {up}:
        vals = [val for (_s, val) in _assignments(enc.node, name)]
        # a local that holds the input or the input without trailing characters
        if vals and all(isinstance(val, ast.Name) and val.id == up or (
                isinstance(val, ast.Call) and isinstance(val.func, ast.Attribute) and val.func.attr == 'rstrip'
                and isinstance(val.func.value, ast.Name) and val.func.value.id == up) for val in vals):
            prefix_locals.add(name)
    for r in [x for x in walk_self(enc.node) if isinstance(x, ast.Return)]:
        v = r.value
        if isinstance(v, ast.Name) and v.id == up:
            continue
        for part in _return_parts(enc, up, tuple(fa.tables), v):
            if part[0] != 'enc':
                continue    # verbatim parts are R1's business
            n_enc += 1
            src = part[1]
            name = _encoded_name(src)
            u = _utf8_encode_of(src, name) if name in prefix_locals else None
            if u is None:
                raise UnknownIdiom('%s: bytes fed to the char table: %s' % (enc.qual, short(src, 60)))
            run.check(u, 'the escapes are those of the UTF-8 bytes of the input', enc, src, where=enc.loc(r),
                      runtime_witness="encode_value('\\u00e9') is not '%C3%A9'")
    if not n_enc:
        raise AnchorError('%s: no encoded return' % enc.qual)


# ---------------------------------------------------------------------------
# R3 bindings
# ---------------------------------------------------------------------------

ENCODERS = {
    'encode': (False, False),
    'encode_value': (True, False),
    'encode_check_escaped': (False, True),
    'encode_value_check_escaped': (True, True),
}


def _encoder_refs(p, f: Func, root=None) -> List[Tuple[ast.AST, str]]:
    """(node, public encoder name) for every reference to one of the four encoders."""
    out = []
    skip = set()
    nodes = list(walk_self(root if root is not None else f.node))
    for n in nodes:
        if isinstance(n, ast.Attribute):
            q = p.resolve_expr(f.module, n, f)
            if q and q.startswith(URI + '.') and q[len(URI) + 1:] in ENCODERS:
                out.append((n, q[len(URI) + 1:]))
                for x in ast.walk(n.value):
                    skip.add(id(x))
    for n in nodes:
        if isinstance(n, ast.Name) and isinstance(n.ctx, ast.Load) and id(n) not in skip:
            q = p.resolve_expr(f.module, n, f)
            if q and q.startswith(URI + '.') and q[len(URI) + 1:] in ENCODERS:
                out.append((n, q[len(URI) + 1:]))
    return out


def r3_bindings(run):
    p = run.project
    m = p.module(URI)
    fac = p.func(URI + '._create_str_encoder')
    params = [a.arg for a in fac.node.args.args]
    ev = _Ev(p, fac)
    for name, want in sorted(ENCODERS.items()):
        if name not in m.consts:
            raise AnchorError('%s.%s not bound at module level' % (URI, name))
        v = m.consts[name]
        if not (isinstance(v, ast.Call) and isinstance(v.func, ast.Name) and p.resolve_expr(m, v.func) == fac.qual):
            raise UnknownIdiom('%s.%s = %s' % (URI, name, short(v, 60)))
        got = {}
        for i, a in enumerate(v.args):
            got[params[i]] = ev.expr(a, {})
        for k in v.keywords:
            got[k.arg] = ev.expr(k.value, {})
        defaults = fac.node.args.defaults
        for i, d in enumerate(defaults):
            got.setdefault(params[len(params) - len(defaults) + i], ev.expr(d, {}))
        if set(got) != set(params):
            raise UnknownIdiom('%s.%s: arguments %s' % (URI, name, short(v, 60)))
        pair = (bool(got[params[0]]), bool(got[params[1]]))
        run.check(pair == want, '%s is the encoder with (is_value, check_is_escaped) = %s' % (name, want), '%s.%s' % (URI, name), v,
                  where='%s:%d' % (m.relpath, m.const_nodes[name].lineno),
                  runtime_witness={True: "%s('a/b') keeps or escapes '/' contrary to its documentation" % name,
                                   False: "%s('%%20') handles an existing escape contrary to its documentation" % name}[pair[0] != want[0]])

    # users
    resp = p.cls('falcon.response.Response')
    for attr in ('location', 'content_location'):
        if attr not in resp.attrs:
            raise AnchorError('Response.%s not found' % attr)
        fake = p.func('falcon.response.Response.append_link')
        refs = _encoder_refs(p, fake, resp.attrs[attr])
        if not refs:
            raise UnknownIdiom('Response.%s: no URI encoder in %s' % (attr, short(resp.attrs[attr], 60)))
        for node, name in refs:
            run.check(name == 'encode_check_escaped', 'Response.%s is encoded as a whole URI, leaving existing escapes alone' % attr,
                      'falcon.response.Response.%s' % attr, node, where='%s:%d' % (resp.file, resp.attr_nodes[attr].lineno),
                      runtime_witness="resp.%s = '/a%%20b?x=1' is double-escaped or loses its delimiters" % attr)
    al = p.func('falcon.response.Response.append_link')
    run.use(al)
    refs = _encoder_refs(p, al)
    if len(refs) < 2:
        raise AnchorError('append_link: URI encoder calls not found')
    parent = enclosing_map(al.node)
    uri_params = {'target', 'anchor'}
    for node, name in refs:
        call = parent.get(id(node))
        arg = call.args[0] if isinstance(call, ast.Call) and call.func is node and call.args else None
        is_uri = isinstance(arg, ast.Name) and arg.id in uri_params
        if is_uri:
            run.check(name == 'encode_check_escaped', 'append_link encodes %s as a whole URI, leaving existing escapes alone' % arg.id, al, call,
                      runtime_witness="append_link('/a%20b?x=1', 'next')")
        else:
            run.check(ENCODERS[name][1], 'append_link uses the check-escaped encoders', al, call if isinstance(call, ast.Call) else node)
    for qual, what in (('falcon.util.misc.to_query_str', 'to_query_str'), ('falcon.response_helpers._format_content_disposition', 'Content-Disposition filename*')):
        f = p.func(qual)
        run.use(f)
        refs = _encoder_refs(p, f)
        if not refs:
            raise AnchorError('%s: no URI encoder reference' % qual)
        for node, name in refs:
            run.check(name == 'encode_value', '%s uses the plain value encoder (so that decode() restores the original)' % what, f,
                      parent_call(f, node), runtime_witness="a value containing '&', '=', '/' or '%41' does not survive the round trip")


def parent_call(f: Func, node):
    par = enclosing_map(f.node)
    c = par.get(id(node))
    return c if isinstance(c, ast.Call) else node


# ---------------------------------------------------------------------------
# R4 decoder paths
# ---------------------------------------------------------------------------

def _slice_of(p, f: Func, e, var: str) -> Optional[Tuple[object, object]]:
    """e is `var[lo:hi]` -> (lo, hi) folded (None for absent)."""
    if isinstance(e, ast.Subscript) and isinstance(e.value, ast.Name) and e.value.id == var and isinstance(e.slice, ast.Slice) \
            and e.slice.step is None:
        lo = p.fold(f.module, e.slice.lower, None, None) if e.slice.lower is not None else None
        hi = p.fold(f.module, e.slice.upper, None, None) if e.slice.upper is not None else None
        if lo is UNKNOWN or hi is UNKNOWN:
            return None
        return (lo, hi)
    return None


def _slice_lower(p, f: Func, e, var: str) -> Optional[Tuple[object]]:
    """e is `var[lo:...]` -> (lo,) folded (None for absent); None if e is no slice of var."""
    if isinstance(e, ast.Subscript) and isinstance(e.value, ast.Name) and e.value.id == var and isinstance(e.slice, ast.Slice):
        lo = p.fold(f.module, e.slice.lower, None, None) if e.slice.lower is not None else None
        return (lo,)
    return None


def _is_percent(p, f: Func, e) -> bool:
    """e is the literal b'%', written in place or as a module-level constant."""
    if isinstance(e, ast.Constant):
        return e.value == b'%'
    v = p.fold(f.module, e, None, f) if isinstance(e, (ast.Name, ast.Attribute)) else UNKNOWN
    return v is not UNKNOWN and isinstance(v, bytes) and v == b'%'


def _emission(stmt) -> Optional[Tuple[str, str, ast.AST]]:
    """('+=' | 'append', accumulator name, emitted value)."""
    if isinstance(stmt, ast.AugAssign) and isinstance(stmt.op, ast.Add) and isinstance(stmt.target, ast.Name):
        return ('+=', stmt.target.id, stmt.value)
    # `acc = acc + <piece>` (the accumulator as the left operand of the outermost `+`) is `acc += <piece>`
    if isinstance(stmt, ast.Assign) and len(stmt.targets) == 1 and isinstance(stmt.targets[0], ast.Name) and isinstance(stmt.value, ast.BinOp) \
            and isinstance(stmt.value.op, ast.Add) and isinstance(stmt.value.left, ast.Name) and stmt.value.left.id == stmt.targets[0].id:
        return ('+=', stmt.targets[0].id, stmt.value.right)
    if isinstance(stmt, ast.Expr) and isinstance(stmt.value, ast.Call) and isinstance(stmt.value.func, ast.Attribute) \
            and stmt.value.func.attr == 'append' and isinstance(stmt.value.func.value, ast.Name) and len(stmt.value.args) == 1:
        return ('append', stmt.value.func.value.id, stmt.value.args[0])
    return None


def _decode_args(call: ast.Call):
    codec, errors = 'utf-8', 'strict'
    a = list(call.args)
    if a:
        codec = a[0].value if isinstance(a[0], ast.Constant) else None
    if len(a) > 1:
        errors = a[1].value if isinstance(a[1], ast.Constant) else None
    for k in call.keywords:
        if k.arg == 'encoding':
            codec = k.value.value if isinstance(k.value, ast.Constant) else None
        if k.arg == 'errors':
            errors = k.value.value if isinstance(k.value, ast.Constant) else None
    return codec, errors


def _is_table(p, f: Func, e) -> bool:
    """e denotes the module's _HEX_TO_BYTE: the global itself or a local of f bound once to it (`table = _HEX_TO_BYTE`)."""
    if p.resolve_expr(f.module, e, f) == URI + '._HEX_TO_BYTE':
        return True
    if isinstance(e, ast.Name) and e.id not in f.params():
        b = _assignments(f.node, e.id)
        return len(b) == 1 and b[0][1] is not None and p.resolve_expr(f.module, b[0][1], f) == URI + '._HEX_TO_BYTE'
    return False


def _is_table_get(p, f: Func, e) -> bool:
    """e denotes the bound method `_HEX_TO_BYTE.get` (directly or through a local bound once to it)."""
    if isinstance(e, ast.Attribute) and e.attr == 'get' and _is_table(p, f, e.value):
        return True
    if isinstance(e, ast.Name) and e.id not in f.params():
        b = _assignments(f.node, e.id)
        return len(b) == 1 and isinstance(b[0][1], ast.Attribute) and b[0][1].attr == 'get' and _is_table(p, f, b[0][1].value)
    return False


def _none_atom(e, var: str) -> Optional[bool]:
    """e is `var is None` / `var == None` (-> True: the atom holds when the value is None) or `var is not None` /
    `var != None` (-> False); operands in either order.  None: e is no such comparison."""
    if not (isinstance(e, ast.Compare) and len(e.ops) == 1 and isinstance(e.ops[0], (ast.Is, ast.IsNot, ast.Eq, ast.NotEq))):
        return None
    a, b = e.left, e.comparators[0]
    if isinstance(b, ast.Name) and isinstance(a, ast.Constant):
        a, b = b, a
    if isinstance(a, ast.NamedExpr):
        a = a.target
    if not (isinstance(a, ast.Name) and a.id == var and isinstance(b, ast.Constant) and b.value is None):
        return None
    return isinstance(e.ops[0], (ast.Is, ast.Eq))


def _get_lookup(p, f: Func, call: ast.Call, parent, hexmap) -> dict:
    """`v = _HEX_TO_BYTE.get(K)` (default absent or None), v a local bound only there: a dict whose values are never None
    answers None exactly for the keys `_HEX_TO_BYTE[K]` raises KeyError for.  The reads of v are `v is None` /
    `v is not None` tests and ONE other read -- the use of the table byte.  Returns {'var', 'key', 'use', 'bind'}."""
    if call.keywords or not (1 <= len(call.args) <= 2) or (len(call.args) == 2 and not (
            isinstance(call.args[1], ast.Constant) and call.args[1].value is None)):
        raise UnknownIdiom('%s: %s (a default other than None is not read)' % (f.qual, short(call, 60)))
    if any(v is None for v in hexmap.values()):
        raise UnknownIdiom('%s: _HEX_TO_BYTE has a None value: %s does not tell a missing key from a present one' % (f.qual, short(call, 60)))
    holder = parent.get(id(call))
    if isinstance(holder, ast.NamedExpr) and holder.value is call:
        var, bind = holder.target.id, holder
    elif isinstance(holder, ast.Assign) and holder.value is call and len(holder.targets) == 1 and isinstance(holder.targets[0], ast.Name):
        var, bind = holder.targets[0].id, holder
    elif isinstance(holder, ast.AnnAssign) and holder.value is call and isinstance(holder.target, ast.Name):
        var, bind = holder.target.id, holder
    else:
        raise UnknownIdiom('%s: the result of %s is not bound to a local' % (f.qual, short(call, 60)))
    if var in f.params() or len(_assignments(f.node, var)) != 1:
        raise UnknownIdiom('%s: %s (result of %s) has other bindings' % (f.qual, var, short(call, 60)))
    own = {id(x) for x in walk_self(f.node)}
    if any(isinstance(x, ast.Name) and x.id == var and id(x) not in own for x in ast.walk(f.node)):
        raise UnknownIdiom('%s: %s is shared with a nested function' % (f.qual, var))
    uses = []
    for x in walk_self(f.node):
        if isinstance(x, ast.Name) and x.id == var and isinstance(x.ctx, ast.Load):
            par = parent.get(id(x))
            if _none_atom(par, var) is None:
                uses.append(x)
    if len(uses) != 1:
        raise UnknownIdiom('%s: %s (result of %s) is read %d times besides the None tests' % (f.qual, var, short(call, 60), len(uses)))
    return {'var': var, 'key': call.args[0], 'use': uses[0], 'bind': bind}


def _check_decode_path(run, f: Func, klen: int, hexmap=None) -> Optional[ast.For]:
    """The token loop(s) of one decoder path; returns the (first) loop (None if f has none).  A path may hold more
    than one loop with a table lookup (an optimistic pass with the try hoisted out of the loop, then the careful one):
    each is read on its own, and `_exactly_once` decides on the paths that every token is emitted once.
    A lookup is `_HEX_TO_BYTE[K]` or `v = _HEX_TO_BYTE.get(K)` (see _get_lookup)."""
    p = run.project
    parent = enclosing_map(f.node)
    lookups = [n for n in walk_self(f.node) if isinstance(n, ast.Subscript) and isinstance(n.ctx, ast.Load) and _is_table(p, f, n.value)]
    gets = [n for n in walk_self(f.node) if isinstance(n, ast.Call) and _is_table_get(p, f, n.func)]
    if not lookups and not gets:
        return None
    cfg = cfg_of(f, p)
    run.use_cfg(cfg)
    infos = [_check_one_lookup(run, f, klen, lk, cfg, parent) for lk in lookups]
    for c in gets:
        g = _get_lookup(p, f, c, parent, hexmap or {})
        infos.append(_check_one_lookup(run, f, klen, g['use'], cfg, parent, get=g))
    _exactly_once(run, f, cfg, infos)
    return infos[0]['loop']


def _catches_key_error(p, f: Func, h: ast.ExceptHandler) -> bool:
    types = [] if h.type is None else (h.type.elts if isinstance(h.type, ast.Tuple) else [h.type])
    quals = [p.resolve_expr(f.module, t, f) for t in types]
    return h.type is None or any(q in ('builtins.KeyError', 'builtins.LookupError', 'builtins.Exception', 'builtins.BaseException') for q in quals)


def _membership_guard(p, f: Func, cfg, loop: ast.For, stmt, lk, get=None):
    """The lookup `_HEX_TO_BYTE[K]` in `stmt` runs only on the outcome "K is a key" of a test `K in _HEX_TO_BYTE`
    (`not in`, negations, conjuncts: decided with `implied` on the dominating branch edge), K the same expression / the
    same once-bound loop local.  With `get` (see _get_lookup) the statement uses the local v = _HEX_TO_BYTE.get(K) and
    the test is `v is None` / `v is not None`: "v is not None" is "K is a key" (no value of the table is None).
    Returns None when there is no such test, else (test node, statements that run in the
    iteration when K is NOT a key -- from the other outcome of that test up to the loop header, a straight line).
    The case split is the one try / except KeyError makes: a dict subscription raises KeyError iff the key is absent."""
    from .common import implied
    key_dump = ast.dump(lk.slice) if get is None else None

    def polarity(e) -> Optional[bool]:
        """True: the atom e holds iff K is a key; False: iff K is missing; None: no atom."""
        if get is not None:
            r = _none_atom(e, get['var'])
            return None if r is None else (not r)
        if (isinstance(e, ast.Compare) and len(e.ops) == 1 and isinstance(e.ops[0], (ast.In, ast.NotIn))
                and _is_table(p, f, e.comparators[0]) and ast.dump(e.left) == key_dump):
            return isinstance(e.ops[0], ast.In)
        return None

    def is_atom(e):
        return polarity(e) is not None

    from .common import nodes_within
    inside = nodes_within(cfg, [loop])
    iters = {i for i in cfg.nodes_for(loop) if cfg.node(i).kind == 'iter'}
    s_ids = [i for i in cfg.nodes_for(stmt) if not cfg.node(i).copy]
    if not s_ids:
        return None
    found = None
    inverted = None
    for t in cfg.live_nodes():
        if t.kind != 'test' or t.id not in inside or t.copy:
            continue
        atoms = [x for x in walk_self(t.ast) if is_atom(x)]
        for a in atoms:
            for (y, l) in cfg.succ[t.id]:
                if l not in ('T', 'F') or not all(flow.dominated_by_edge(cfg, s, (t.id, y, l)) for s in s_ids):
                    continue
                r = implied(t.ast, l == 'T', lambda e, a=a: e is a)
                if r is None:
                    continue
                present = r if polarity(a) else (not r)
                if not present:
                    inverted = t
                    continue
                others = [(y2, l2) for (y2, l2) in cfg.succ[t.id] if l2 in ('T', 'F') and l2 != l]
                if len(others) != 1:
                    raise UnknownIdiom('%s: test %s' % (f.qual, short(t.ast, 60)))
                y2, l2 = others[0]
                r2 = implied(t.ast, l2 == 'T', lambda e, a=a: e is a)
                if r2 is None or (r2 if polarity(a) else (not r2)):
                    # the other outcome is not just "the key is missing" (a further conjunct): what the arm does with a
                    # well-formed escape is outside what is read here
                    raise UnknownIdiom('%s: the other outcome of %s does not mean the key is missing' % (f.qual, short(t.ast, 60)))
                found = (t, y, y2)
    if found is None:
        # the statement runs only on the outcome "K is NOT a key": the case split is there, the arms are the wrong way round
        return ('inverted', inverted) if inverted is not None else None
    t, y, y2 = found
    if get is not None:
        # v holds this token's answer when it is tested: its one binding lies on every path from the loop header to the test
        b_ids = set(cfg.nodes_for(get['bind'])) if isinstance(get['bind'], ast.stmt) else set()
        if not b_ids:      # walrus: bound in the node of its test
            b_ids = {n.id for n in cfg.live_nodes() if any(x is get['bind'] for x in n.walk())}
        if not b_ids or not b_ids <= inside:
            raise UnknownIdiom('%s: %s is not bound inside the token loop' % (f.qual, get['var']))
        if t.id not in b_ids and flow.find_path(cfg, [b for i in iters for (b, l) in cfg.succ[i] if l == 'next'], [t.id],
                                                avoid_nodes=b_ids, edge_filter=flow.no_exc) is not None:
            raise UnknownIdiom('%s: %s is tested on a path that has not bound it in this iteration' % (f.qual, get['var']))
    # the key local is not re-bound between the test and the lookup (it is bound once in the loop: checked by the caller)
    elif isinstance(lk.slice, ast.Name):
        b_ids = [i for s, _v in _assignments(loop, lk.slice.id) for i in cfg.nodes_for(s)]
        if b_ids and flow.find_path(cfg, [y], b_ids, avoid_nodes=iters, edge_filter=flow.no_exc) is not None:
            raise UnknownIdiom('%s: %s is re-bound between the membership test and the lookup' % (f.qual, lk.slice.id))
    # straight line from the "missing" outcome to the loop header
    out = []
    cur = y2
    seen = set()
    while cur not in iters:
        if cur in seen or cur not in inside:
            raise UnknownIdiom('%s: the arm for a key missing from _HEX_TO_BYTE leaves the loop' % f.qual)
        seen.add(cur)
        n = cfg.node(cur)
        if n.kind == 'stmt':
            if not isinstance(n.ast, (ast.Continue, ast.Pass)):
                out.append(n.ast)
        elif n.kind != 'join':
            raise UnknownIdiom('%s: the arm for a key missing from _HEX_TO_BYTE branches (%s)' % (f.qual, n.text()))
        nxt = [b for (b, l) in cfg.succ.get(cur, ()) if l != 'exc']
        if len(nxt) != 1:
            raise UnknownIdiom('%s: the arm for a key missing from _HEX_TO_BYTE branches (%s)' % (f.qual, n.text()))
        cur = nxt[0]
    return (t, out)


def _exactly_once(run, f: Func, cfg, infos):
    """On every path from the entry to a return of the decoded accumulator each token has been emitted exactly once:
    the accumulator is in one of the states
        unset | init (holds the text before the first %) | pass (a loop over the tokens is under way, begun from init)
        | full (such a loop ended normally) | dirty (a loop was left early -- exception to a handler outside it, break --
        or was begun on an accumulator that was not freshly initialised);
    a (re-)initialising assignment gives init; beginning a pass from full / dirty duplicates what is already there; the
    value returned must be full.  So a fallback loop that starts over after an optimistic one failed half-way needs
    the accumulator re-bound first.
    W: decode('a%20b%20c%20d%20e%20f%20g%20h=100%') == 'a b c d e f g h=100 b c d e f g h=100%'."""
    accs = {i['acc'] for i in infos}
    toks = {i['toks'] for i in infos}
    if len(accs) != 1 or len(toks) != 1:
        raise UnknownIdiom('%s: the token loops use different accumulators / token lists (%s; %s)' % (f.qual, sorted(accs), sorted(toks)))
    acc = next(iter(accs))
    loops = {id(i['loop']): i['loop'] for i in infos}
    init_stmts = {id(s) for i in infos for s in i['inits']}
    from .common import nodes_within
    loop_nodes = {k: nodes_within(cfg, [lp]) for k, lp in loops.items()}
    iter_of = {}
    for k, lp in loops.items():
        for i in cfg.nodes_for(lp):
            if cfg.node(i).kind == 'iter':
                iter_of[i] = k
    in_loop = {}
    for k, ids in loop_nodes.items():
        for i in ids:
            in_loop.setdefault(i, set()).add(k)
    # everything else that changes the accumulator is outside what is read here
    for n in cfg.live_nodes():
        if n.copy or n.id in in_loop:
            continue
        a = n.ast if n.kind == 'stmt' else None
        if a is None:
            continue
        if id(a) in init_stmts:
            continue
        em = _emission(a)
        writes = (em is not None and em[1] == acc) or any(
            isinstance(x, ast.Name) and x.id == acc and isinstance(x.ctx, (ast.Store, ast.Del)) for x in ast.walk(a)) or any(
            isinstance(x, ast.Call) and isinstance(x.func, ast.Attribute) and x.func.attr in _IN_PLACE and isinstance(x.func.value, ast.Name)
            and x.func.value.id == acc for x in ast.walk(a)) or any(
            isinstance(x, (ast.Subscript, ast.Attribute)) and isinstance(x.ctx, (ast.Store, ast.Del)) and _base_name(x) == acc for x in ast.walk(a))
        plain = isinstance(a, (ast.Assign, ast.AnnAssign)) and all(isinstance(t, ast.Name) for t in (a.targets if isinstance(a, ast.Assign) else [a.target]))
        if writes and not plain:      # a plain re-binding that is not a validated initialisation leaves the state `unset`
            raise UnknownIdiom('%s: the accumulator %s is also changed by %s' % (f.qual, acc, short(a, 80)))

    def binds_acc(n) -> Optional[str]:
        a = n.ast if n.kind == 'stmt' else None
        if isinstance(a, (ast.Assign, ast.AnnAssign)) and any(isinstance(t, ast.Name) and t.id == acc
                                                             for t in (a.targets if isinstance(a, ast.Assign) else [a.target])):
            return 'init' if id(a) in init_stmts else 'unset'
        return None

    start = (cfg.entry, 'unset')
    prev = {start: None}
    work = [start]
    problems = []     # (key, kind)
    unread = None
    while work:
        key = work.pop(0)
        nid, st = key
        n = cfg.node(nid)
        if n.kind == 'stmt' and isinstance(n.ast, ast.Return) and n.ast.value is not None \
                and any(isinstance(x, ast.Name) and x.id == acc for x in ast.walk(n.ast.value)):
            if st in ('dirty', 'pass'):
                problems.append((key, 'return'))
            elif st != 'full':
                unread = n
        for (b, l) in cfg.succ.get(nid, ()):
            st2 = st
            if l != 'exc':
                bound = binds_acc(n)
                if bound is not None and not (in_loop.get(nid)):
                    st2 = bound
            if nid in iter_of:
                if l == 'next':
                    if st in ('full', 'dirty'):
                        problems.append((key, 'pass'))
                        st2 = 'dirty'
                    elif st in ('init', 'pass'):
                        st2 = 'pass'
                    else:
                        st2 = 'dirty'
                elif l == 'done':
                    st2 = 'full' if st in ('init', 'pass', 'full') else st
            elif st == 'pass' and in_loop.get(nid) and not (in_loop.get(nid) & in_loop.get(b, set())) and b not in iter_of:
                st2 = 'dirty'      # the pass was left before its end
            k2 = (b, st2)
            if k2 not in prev:
                prev[k2] = key
                work.append(k2)

    def trace(key):
        path = []
        while key is not None:
            path.append(key[0])
            key = prev[key]
        return list(reversed(path))

    what = ('each token is emitted into the accumulator exactly once on every path to the return: a pass over the tokens starts from a freshly '
            'initialised accumulator, and what is returned went through one complete pass')
    rw = "decode('a%20b%20c%20d%20e%20f%20g%20h=100%') == 'a b c d e f g h=100 b c d e f g h=100%' (the prefix decoded before the malformed escape twice)"
    reported = set()
    if any(kind == 'pass' for _k, kind in problems):
        problems = [(k, kind) for k, kind in problems if kind == 'pass']     # the returns behind it only repeat the finding
    for key, kind in problems:
        n = cfg.node(key[0])
        cons = n.stmt.iter if kind == 'pass' else n.ast
        tag = (kind, id(cons))
        if tag in reported:
            continue
        reported.add(tag)
        path = trace(key)
        wit = ['the accumulator %s is %s here' % (acc, {'full': 'already complete', 'dirty': 'partly filled by a pass that was left early',
                                                     'pass': 'in the middle of a pass'}[key[1]])] + flow.describe_path(cfg, path)[-12:]
        run.fail(what, f, cons, where='%s:%s' % (f.file, n.lineno), witness=wit, runtime_witness=rw)
    if not problems:
        if unread is not None:
            raise UnknownIdiom('%s: %s is returned on a path without a complete pass over the tokens: %s' % (f.qual, acc, short(unread.ast, 60)))
        run.ok(what, f.loc(), '%s: %d token loop(s)' % (f.qual, len(loops)))


def _check_one_lookup(run, f: Func, klen: int, lk, cfg, parent, get=None) -> dict:
    """lk: the subscription `_HEX_TO_BYTE[K]`, or -- with `get` -- the one read of the local bound to `_HEX_TO_BYTE.get(K)`."""
    p = run.project
    # enclosing statement, try, loop
    stmt = lk
    while not isinstance(stmt, ast.stmt):
        stmt = parent[id(stmt)]
    loop = try_ = outer_try = None
    cur = parent.get(id(stmt))
    prev_node = stmt
    while cur is not None and cur is not f.node:
        if isinstance(cur, ast.Try) and try_ is None and loop is None and any(stmt is s or any(x is stmt for x in ast.walk(s)) for s in cur.body):
            try_ = cur
        if isinstance(cur, ast.Try) and loop is not None and try_ is None and outer_try is None \
                and any(s is prev_node for s in cur.body) and any(_catches_key_error(p, f, h) for h in cur.handlers):
            outer_try = cur
        if isinstance(cur, ast.For) and loop is None:
            loop = cur
        prev_node = cur
        cur = parent.get(id(cur))
    if loop is None or not isinstance(loop.target, ast.Name):
        raise UnknownIdiom('%s: the _HEX_TO_BYTE lookup is not inside a token loop' % f.qual)
    tok = loop.target.id
    where = f.loc(lk)

    # 1. key = first klen characters of the token
    key = lk.slice if get is None else get['key']
    if get is not None and not any(x is get['bind'] for x in ast.walk(loop)):
        raise UnknownIdiom('%s: %s is bound outside the token loop' % (f.qual, get['var']))
    if isinstance(key, ast.Name):
        binds = [b for b in _assignments(loop, key.id)]
        if len(binds) != 1 or binds[0][1] is None:
            raise UnknownIdiom('%s: key variable %s' % (f.qual, key.id))
        key = binds[0][1]
    sl = _slice_of(p, f, key, tok)
    if sl is None:
        raise UnknownIdiom('%s: lookup key %s' % (f.qual, short(key, 60)))
    run.check(sl[0] in (None, 0) and sl[1] == klen, 'the escape is looked up by exactly the %d characters that follow the %%' % klen, f, key,
              where=where, runtime_witness="decode('%41B') != 'AB'")

    # 2. success emission: table byte + rest of the token after the key
    em = _emission(stmt)
    if em is None:
        raise UnknownIdiom('%s: statement using the lookup: %s' % (f.qual, short(stmt, 80)))
    op, acc, val = em
    if isinstance(val, ast.BinOp) and not isinstance(val.op, ast.Add) and (
            (val.left is lk and _slice_lower(p, f, val.right, tok) is not None)
            or (val.right is lk and _slice_lower(p, f, val.left, tok) is not None)):
        # Type-level reading: both operands are bytes (a value of the bytes-valued table, a slice of the bytes token).
        # Between two bytes objects only `+` is concatenation; `-`, `*`, `/`, `//`, `@`, `&`, `|`, `^`, `<<`, `>>`, `**` raise
        # TypeError (which the KeyError arm does not catch) and `%` is printf-formatting, not concatenation.  Every sibling
        # path (inline loop, bytearray joiner, list joiner) must combine the two with `+`.
        run.fail('the decoded byte and the rest of the token are combined by bytes concatenation (`+`) on every decoder path '
                 '(no other operator is defined between two bytes objects / means concatenation)', f, val, where=where,
                 witness=['operator %s between the table byte and %s' % (type(val.op).__name__, short(val.right if val.left is lk else val.left, 40))],
                 runtime_witness="decode('%41' * 8) raises TypeError on the platform that selects this joiner (PyPy: _join_tokens_list)")
        val = None
    if val is not None and isinstance(val, ast.BinOp) and isinstance(val.op, ast.Add) and val.right is lk \
            and _slice_lower(p, f, val.left, tok) is not None:
        run.fail('the decoded byte precedes the rest of the token (the escape is replaced where it stood)', f, val, where=where,
                 runtime_witness="decode('%41BC') == 'BCA'")
        val = None
    if val is not None:
        if not (isinstance(val, ast.BinOp) and isinstance(val.op, ast.Add) and val.left is lk):
            raise UnknownIdiom('%s: emitted value %s' % (f.qual, short(val, 80)))
        rest = _slice_of(p, f, val.right, tok)
        if rest is None:
            raise UnknownIdiom('%s: remainder %s' % (f.qual, short(val.right, 60)))
        run.check(rest == (klen, None), 'the decoded byte is followed by the rest of the token after the %d key characters' % klen, f, val,
                  where=where, runtime_witness="decode('%41BC') drops or repeats a character")

    # 3. KeyError fallback re-emits '%' + token on the same accumulator
    if try_ is None and outer_try is not None:
        # the try is hoisted out of the loop: a malformed escape ends this pass and control goes to the handler; what
        # happens to the tokens then (start over on a re-initialised accumulator) is decided by _exactly_once
        run.ok('a malformed escape ends the optimistic pass in a KeyError arm outside the loop (the tokens are read again from there)',
               f.loc(outer_try), stmt)
    elif try_ is None or get is not None:
        guard = _membership_guard(p, f, cfg, loop, stmt, lk, get)
        if guard is not None and guard[0] == 'inverted':
            run.fail('the table byte is emitted for the tokens whose key IS in _HEX_TO_BYTE (the case split is the wrong way round)', f, stmt,
                     where=where, witness=['%s runs only when %s is not a key: test %s' % (short(stmt, 60), short(key, 40), short(guard[1].ast, 60))],
                     runtime_witness="decode('%zz') raises " + ('KeyError' if get is None else 'TypeError (None + bytes)') + "; decode('%41') == '%41'")
        elif guard is None and get is not None:
            if any(isinstance(x, ast.Name) and x.id == get['var'] for n in cfg.live_nodes() if n.kind == 'test' for x in n.walk()):
                raise UnknownIdiom('%s: the test on %s (result of _HEX_TO_BYTE.get) is not read' % (f.qual, get['var']))
            run.fail('a malformed escape stays literal (the result of _HEX_TO_BYTE.get() is used without a test for None)', f, stmt, where=where,
                     runtime_witness="decode('%zz') raises TypeError (None + bytes)")
        elif guard is None:
            run.fail('a malformed escape stays literal (the lookup is not inside try/except KeyError)', f, stmt, where=where,
                     runtime_witness="decode('%zz') raises KeyError")
        else:
            # `if key in _HEX_TO_BYTE: <decoded arm> else: <literal arm>`: the same case split as try / except KeyError
            # (the subscription is the only thing in the decoded arm that can raise KeyError): same obligations on the arms
            test, absent = guard
            if not absent:
                run.fail("a malformed escape is re-emitted literally as b'%' + the whole token", f, test.ast, where='%s:%s' % (f.file, test.lineno),
                         witness=['nothing is emitted when %s is not a key of _HEX_TO_BYTE' % short(key, 40)],
                         runtime_witness="decode('%zz') != '%zz'")
            else:
                ems = [_emission(s) for s in absent]
                if len(absent) != 1 or ems[0] is None:
                    raise UnknownIdiom('%s: the arm for a key missing from _HEX_TO_BYTE: %s' % (f.qual, '; '.join(short(s, 60) for s in absent)))
                op2, acc2, val2 = ems[0]
                ok = (op2 == op and acc2 == acc and isinstance(val2, ast.BinOp) and isinstance(val2.op, ast.Add)
                      and _is_percent(p, f, val2.left) and isinstance(val2.right, ast.Name) and val2.right.id == tok)
                run.check(ok, "a malformed escape is re-emitted literally as b'%' + the whole token", f, absent[0], where=f.loc(absent[0]),
                          runtime_witness="decode('%zz') != '%zz'")
    else:
        arms = [h for h in try_.handlers if _catches_key_error(p, f, h)]
        if not arms:
            run.fail('a malformed escape stays literal (no except arm catches KeyError)', f, stmt, where=where,
                     runtime_witness="decode('%zz') raises KeyError")
        for h in arms:
            ems = [_emission(s) for s in h.body]
            ems = [e for e in ems if e is not None]
            if len(ems) != 1 or len(h.body) != 1:
                raise UnknownIdiom('%s: KeyError arm %s' % (f.qual, short(h, 80)))
            op2, acc2, val2 = ems[0]
            ok = (op2 == op and acc2 == acc and isinstance(val2, ast.BinOp) and isinstance(val2.op, ast.Add)
                  and _is_percent(p, f, val2.left) and isinstance(val2.right, ast.Name) and val2.right.id == tok)
            run.check(ok, "a malformed escape is re-emitted literally as b'%' + the whole token", f, h.body[0], where=f.loc(h),
                      runtime_witness="decode('%zz') != '%zz'")

    # 4. the first token is emitted verbatim and skipped by the loop
    it = loop.iter
    toks = None
    skip_ok = None
    if isinstance(it, ast.Subscript) and isinstance(it.value, ast.Name) and isinstance(it.slice, ast.Slice):
        toks = it.value.id
        s2 = _slice_of(p, f, it, toks)
        skip_ok = s2 == (1, None)
    elif isinstance(it, ast.Name):
        toks = it.id
        first = loop.body[0] if loop.body else None
        if isinstance(first, ast.If) and isinstance(first.test, ast.Name) and not first.orelse and len(first.body) == 2 \
                and isinstance(first.body[0], ast.Assign) and isinstance(first.body[1], ast.Continue):
            flag = first.test.id
            a0 = first.body[0]
            binds = _assignments(f.node, flag)
            inits = [(s, v) for s, v in binds if s is not a0]
            skip_ok = (len(a0.targets) == 1 and isinstance(a0.targets[0], ast.Name) and a0.targets[0].id == flag
                       and isinstance(a0.value, ast.Constant) and a0.value.value is False
                       and len(inits) == 1 and isinstance(inits[0][1], ast.Constant) and inits[0][1].value is True
                       and not any(x is inits[0][0] for x in ast.walk(loop)))
        elif _assignments(f.node, it.id):
            # a local (an iterator over the tokens, a copy ...): which tokens it still yields is not read here
            raise UnknownIdiom('%s: token loop over the local %s' % (f.qual, it.id))
        else:
            skip_ok = False
    if toks is None or skip_ok is None:
        raise UnknownIdiom('%s: token loop header %s' % (f.qual, short(it, 60)))
    run.check(skip_ok, 'the loop treats every token except the first as the text after a %', f, it, where=f.loc(loop),
              runtime_witness="decode('41%41') != '41A'")
    # (re-)initialisations: bindings of the accumulator outside this loop; the emissions of a sibling pass are not bindings
    outside = [(s, v) for s, v in _assignments(f.node, acc) if not any(x is s for x in ast.walk(loop)) and _emission(s) is None]
    it_ids = [i for i in cfg.nodes_for(loop) if cfg.node(i).kind == 'iter']
    def_nodes = {id(s): cfg.nodes_for(s) for s, _ in outside}
    all_def_ids = {i for ids in def_nodes.values() for i in ids}
    inits = []
    for s, v in outside:
        for nid in def_nodes[id(s)]:
            succs = [y for (y, l) in cfg.succ[nid] if l != 'exc']
            if flow.find_path(cfg, succs, it_ids, avoid_nodes=all_def_ids - {nid}) is not None or any(y in it_ids for y in succs):
                inits.append((s, v))
                break
    if not inits or any(v is None for _, v in inits):
        raise UnknownIdiom('%s: initialisation of the accumulator %s' % (f.qual, acc))
    for init_stmt, iv in inits:
        core = iv.args[0] if isinstance(iv, ast.Call) and isinstance(iv.func, ast.Name) and iv.func.id in ('bytearray', 'bytes') and len(iv.args) == 1 else iv
        if op == 'append':
            first_ok = _slice_of(p, f, core, toks) in ((None, 1), (0, 1)) or (
                isinstance(core, ast.List) and len(core.elts) == 1 and _index0(core.elts[0], toks))
        else:
            first_ok = _index0(core, toks)
        shared = isinstance(core, ast.Name) and p.resolve_expr(f.module, core, f) is not None    # a module-level object: not the first token
        if not first_ok and not shared and not (isinstance(core, (ast.Constant, ast.List, ast.Tuple)) or (
                isinstance(core, ast.Subscript) and isinstance(core.value, ast.Name) and core.value.id == toks)
                or (isinstance(core, ast.Call) and isinstance(core.func, ast.Name) and core.func.id in ('bytearray', 'bytes', 'list') and not core.args)):
            # neither a subscript of the token list nor a literal / empty container: how the first token gets there is not read
            raise UnknownIdiom('%s: initial value %s of the accumulator %s' % (f.qual, short(iv, 60), acc))
        run.check(bool(first_ok), 'the text before the first % is copied verbatim', f, init_stmt, where=f.loc(init_stmt),
                  runtime_witness="decode('ab%41') != 'abA'")

    # 5. final decode('utf-8', 'replace') of the accumulator
    done = [i for i in cfg.nodes_for(loop) if cfg.node(i).kind == 'join']
    rets = [n for n in cfg.live_nodes() if n.kind == 'stmt' and isinstance(n.ast, ast.Return)
            and n.id in flow.reachable(cfg, done, edge_filter=flow.no_exc)]
    if not rets:
        raise UnknownIdiom('%s: no return after the token loop' % f.qual)
    for r in rets:
        v = r.ast.value
        if not (isinstance(v, ast.Call) and isinstance(v.func, ast.Attribute) and v.func.attr == 'decode'):
            raise UnknownIdiom('%s: return after the loop: %s' % (f.qual, short(v, 80)))
        recv = v.func.value
        if isinstance(recv, ast.Call) and isinstance(recv.func, ast.Attribute) and recv.func.attr == 'join' and len(recv.args) == 1:
            recv = recv.args[0]
        if not (isinstance(recv, ast.Name) and recv.id == acc):
            raise UnknownIdiom('%s: decoded object %s is not the accumulator' % (f.qual, short(v.func.value, 60)))
        codec, errors = _decode_args(v)
        run.check(codec in UTF8 and errors == 'replace', "the collected bytes are read as UTF-8 with errors='replace' (never fails)", f, v,
                  where='%s:%s' % (f.file, r.lineno), runtime_witness="decode('%ff') raises UnicodeDecodeError or drops the byte")
    return {'loop': loop, 'acc': acc, 'toks': toks, 'inits': [s for s, _v in inits], 'lookup': lk}


def _index0(e, toks: str) -> bool:
    return (isinstance(e, ast.Subscript) and isinstance(e.value, ast.Name) and e.value.id == toks
            and isinstance(e.slice, ast.Constant) and e.slice.value == 0)


def _eval3(expr, assume) -> Optional[bool]:
    """Three-valued evaluation under assumed atom values."""
    a = assume(expr)
    if a is not None:
        return a
    if isinstance(expr, ast.Constant):
        return bool(expr.value)
    if isinstance(expr, ast.UnaryOp) and isinstance(expr.op, ast.Not):
        v = _eval3(expr.operand, assume)
        return None if v is None else (not v)
    if isinstance(expr, ast.BoolOp):
        vals = [_eval3(v, assume) for v in expr.values]
        if isinstance(expr.op, ast.And):
            if any(v is False for v in vals):
                return False
            return True if all(v is True for v in vals) else None
        if any(v is True for v in vals):
            return True
        return False if all(v is False for v in vals) else None
    return None


def _feasible(cfg, assume):
    def filt(a, b, l):
        if l == 'exc':
            return False
        n = cfg.node(a)
        if n.kind == 'test' and l in ('T', 'F'):
            v = _eval3(n.ast, assume)
            if v is True and l == 'F':
                return False
            if v is False and l == 'T':
                return False
        return True
    return filt


_FUNCTOOLS_CACHES = ('functools.lru_cache', 'functools.cache', 'lru_cache', 'cache')


def _decode_tail(p, dec: Func, cfg, is_split):
    """decode() has no split at '%' of its own: the body from the re-encoding on was moved into a plain module-level
    helper H(<text>) that decode() calls.  -> (H, graph of H, the split nodes of H, [(node of decode(), call)]) or None.
    H takes the text as its one argument; a functools cache on H is keyed by exactly that argument."""
    found: Dict[str, tuple] = {}
    for n in cfg.live_nodes():
        if n.copy:
            continue
        for c in n.calls():
            if not (isinstance(c.func, ast.Name) and len(c.args) == 1 and not c.keywords):
                continue
            h = p.resolve_callable(dec, c.func)
            if not isinstance(h, Func) or h is dec or h.cls is not None or h.parent is not None or h.is_async:
                continue
            if any(d.split('(')[0] not in _FUNCTOOLS_CACHES for d in h.decorators):
                continue
            a = h.node.args
            if len(a.args) + len(a.posonlyargs) != 1 or a.vararg or a.kwarg or a.kwonlyargs:
                continue
            hcfg = cfg_of(h, p)
            sps = [m for m in hcfg.live_nodes() if any(is_split(x, h) for x in m.calls())]
            if sps:
                found.setdefault(h.qual, (h, hcfg, sps, []))[3].append((n, c))
    if len(found) != 1:
        return None
    return next(iter(found.values()))


def _fixed_by_guard(f: Func, cfg, nid: int, q: str, want: bool) -> bool:
    """node `nid` runs only where a dominating branch outcome establishes truthiness(q) == want; a local bound once
    (`cacheable = len(s) <= N and q`) is read through at the and/or/not positions of the test."""
    from .c11 import _truthiness

    def subst(e, depth=3):
        if isinstance(e, ast.Name) and e.id != q and e.id not in f.params() and depth > 0:
            b = _assignments(f.node, e.id)
            if len(b) == 1 and b[0][1] is not None:
                return subst(b[0][1], depth - 1)
        if isinstance(e, ast.BoolOp):
            return ast.BoolOp(op=e.op, values=[subst(v, depth) for v in e.values])
        if isinstance(e, ast.UnaryOp) and isinstance(e.op, ast.Not):
            return ast.UnaryOp(op=e.op, operand=subst(e.operand, depth))
        return e

    for t in cfg.live_nodes():
        if t.kind != 'test':
            continue
        for (y, l) in cfg.succ[t.id]:
            if l in ('T', 'F') and flow.dominated_by_edge(cfg, nid, (t.id, y, l)):
                if _truthiness(subst(t.ast), l == 'T', lambda e: isinstance(e, ast.Name) and e.id == q) is want:
                    return True
    return False


R4_MEMO = ('every answer the decode path keeps in a module-level table is stored under a key that depends on every parameter the '
           'stored value depends on (def-use, including the tests an assignment sits under)')
R4_MEMO_RW = ("decode('a+b%3Dc') == 'a b=c', then decode('a+b%3Dc', unquote_plus=False) == 'a b=c' (the first call's answer; "
              "must be 'a+b=c')")


def _r4_memo(run, f: Func, cfg, result_vars, hand_calls) -> Set[str]:
    """R4 clause (memo keys): a module-level table M that `f` stores into (`M[K] = V`) is a memo of answers.  Two calls
    that agree on K get the same answer back, so K must depend on every parameter of f that V depends on.  Decided by
    def-use over the parameters: q influences an expression when the expression mentions q or a local derived from q
    (through the value assigned or through the test / iterable the assignment sits under: _derived_locals).  A
    bool-defaulted parameter whose truth value is fixed by a dominating branch outcome at the store and at every read
    of M (the memo serves one setting only) is not required in the key.  The reads of M use the key of the stores.
    In decode() (`result_vars` / `hand_calls` given) what is stored is the helper's answer.
    W: decode('a+b%3Dc') then decode('a+b%3Dc', unquote_plus=False) == 'a b=c'.
    Returns the locals bound only to reads of such a table."""
    p = run.project
    m = p.module(URI)
    locals_ = _stored_names(f.node)

    def table(e) -> Optional[str]:
        if isinstance(e, ast.Name) and e.id not in locals_ and e.id in m.consts and p.resolve_expr(f.module, e, f) == '%s.%s' % (URI, e.id):
            return e.id
        return None

    stores, reads = [], []
    for x in walk_self(f.node):
        if isinstance(x, ast.Subscript) and isinstance(x.ctx, ast.Store) and table(x.value):
            stores.append(x)
        elif isinstance(x, ast.Call) and isinstance(x.func, ast.Attribute) and x.func.attr in ('setdefault', 'update', '__setitem__') \
                and table(x.func.value):
            raise UnknownIdiom('%s: %s fills a module-level table' % (f.qual, short(x, 60)))
    tables = {table(s.value) for s in stores}
    if not stores:
        run.ok('the decode path keeps no answers in a module-level table (nothing to key)', f.loc(), '%s: no memo store' % f.qual)
        return set()
    parent = enclosing_map(f.node)
    for x in walk_self(f.node):
        if isinstance(x, ast.Subscript) and isinstance(x.ctx, ast.Load) and table(x.value) in tables:
            reads.append((x, x.slice))
        elif isinstance(x, ast.Call) and isinstance(x.func, ast.Attribute) and x.func.attr in ('get', 'pop') and table(x.func.value) in tables:
            if not x.args or x.keywords:
                raise UnknownIdiom('%s: %s' % (f.qual, short(x, 60)))
            reads.append((x, x.args[0]))
        elif isinstance(x, ast.Compare) and len(x.ops) == 1 and isinstance(x.ops[0], (ast.In, ast.NotIn)) and table(x.comparators[0]) in tables:
            reads.append((x, x.left))
    params = f.params()
    derived = {q: {q} | _derived_locals(f.node, {q}) for q in params}

    def deps(e) -> Set[str]:
        names = {x.id for x in ast.walk(e) if isinstance(x, ast.Name)}
        return {q for q in params if names & derived[q]}

    def node_of(x):
        st = x
        while not isinstance(st, ast.stmt):
            st = parent[id(st)]
        ids = [i for i in cfg.nodes_for(st) if not cfg.node(i).copy]
        if not ids:
            ids = [n.id for n in cfg.live_nodes() if not n.copy and any(y is x for y in n.walk())]
        if not ids:
            raise UnknownIdiom('%s: %s is not on the graph' % (f.qual, short(x, 60)))
        return st, ids

    store_keys = set()
    for s in stores:
        st, ids = node_of(s)
        if not (isinstance(st, ast.Assign) and len(st.targets) == 1 and st.targets[0] is s):
            raise UnknownIdiom('%s: memo store %s' % (f.qual, short(st, 60)))
        key, val = _expand(f, s.slice), st.value
        store_keys.add((table(s.value), ast.dump(key)))
        if hand_calls or result_vars:
            if not ((isinstance(val, ast.Name) and val.id in result_vars and all(flow.dominated_by_nodes(cfg, i, result_vars[val.id]) for i in ids))
                    or any(val is c for c in hand_calls)):
                raise UnknownIdiom('%s: what %s keeps is not the answer of the decoding helper' % (f.qual, short(st, 60)))
        missing = sorted(deps(val) - deps(key))
        excused = []
        for q in list(missing):
            d = _param_default(f, q)
            if not (isinstance(d, ast.Constant) and isinstance(d.value, bool)):
                continue
            sites = [i for i in ids] + [i for (r, _k) in reads if table(getattr(r, 'value', None) if isinstance(r, ast.Subscript) else (
                r.func.value if isinstance(r, ast.Call) else r.comparators[0])) == table(s.value) for i in node_of(r)[1]]
            for want in (True, False):
                if all(_fixed_by_guard(f, cfg, i, q, want) for i in sites):
                    excused.append(q)
                    break
        missing = [q for q in missing if q not in excused]
        run.check(not missing, R4_MEMO, f, st, where=f.loc(st),
                  witness=['the key %s depends on: %s' % (short(key, 40), ', '.join(sorted(deps(key))) or '-'),
                           'the stored value %s depends on: %s' % (short(val, 40), ', '.join(sorted(deps(val))) or '-'),
                           'not in the key: %s' % ', '.join(missing)] if missing else None,
                  runtime_witness=R4_MEMO_RW)
    for r, k in reads:
        t = table(r.value if isinstance(r, ast.Subscript) else (r.func.value if isinstance(r, ast.Call) else r.comparators[0]))
        if (t, ast.dump(_expand(f, k))) not in store_keys:
            raise UnknownIdiom('%s: %s reads the table with another key than it is stored under' % (f.qual, short(r, 60)))
    out = set()
    read_ids = {id(r) for r, _k in reads}
    for name in sorted(locals_ - set(params)):
        b = _assignments(f.node, name)
        if b and all(v is not None and id(v) in read_ids for _s, v in b):
            out.add(name)
    return out


def r4_decoder_paths(run):
    p = run.project
    hexmap = _hex_to_byte(run)
    klens = {len(k) for k in hexmap if isinstance(k, (bytes, str))}
    if len(klens) != 1:
        raise UnknownIdiom('_HEX_TO_BYTE: the keys have no single length (%s): the token window of the decoder paths cannot be judged '
                           '(R2 judges the key set)' % sorted(klens))
    klen = single(sorted(klens), 'key length of _HEX_TO_BYTE')
    m = p.module(URI)
    paths = {}
    for name, f in sorted(m.functions.items()):
        loop = _check_decode_path(run, f, klen, hexmap)
        if loop is not None:
            paths[f.qual] = loop
    dec = p.func(URI + '.decode')
    # decode() may hold a token loop of its own (the short-input path) or hand every token list to a helper with the
    # skeleton (the short path moved out into a third joiner): the returns below decide that each path ends in one
    inline = dec.qual in paths
    if len(paths) < 2:
        raise AnchorError('token joiners not found (decoder paths: %s)' % sorted(paths))
    run.extra['c10_decoder_paths'] = sorted(paths)

    cfg = cfg_of(dec, p)
    params = [a.arg for a in dec.node.args.args]
    if len(params) != 2:
        raise UnknownIdiom('decode() takes %s' % params)
    src, flag = params

    def is_flag(e):
        return isinstance(e, ast.Name) and e.id == flag

    def is_replace(c):
        return (isinstance(c, ast.Call) and isinstance(c.func, ast.Attribute) and c.func.attr == 'replace' and len(c.args) == 2
                and all(isinstance(a, ast.Constant) for a in c.args) and c.args[0].value == '+' and c.args[1].value == ' ')

    def split_sep(c, fn=dec):
        # the separator literal, written in place or as a module-level constant (`_PERCENT = b'%'`)
        v = p.fold(fn.module, c.args[0], None, fn)
        return None if v is UNKNOWN else v

    def is_split(c, fn=dec):
        # the tokenising split, with or without a bound (the bound is decided below: _r4_unbounded_tokens)
        return (isinstance(c, ast.Call) and isinstance(c.func, ast.Attribute) and c.func.attr in ('split', 'rsplit') and len(c.args) >= 1
                and split_sep(c, fn) in (b'%', '%'))

    rep_nodes = [n for n in cfg.live_nodes() if any(is_replace(c) for c in n.calls())]
    split_nodes = [n for n in cfg.live_nodes() if any(is_split(c) for c in n.calls())]
    # where the split lives: in decode() itself, or -- the body from the re-encoding on moved out verbatim -- in a plain
    # module-level helper H(text) that decode() hands the text to (`hand`: the nodes of decode() that call it)
    tail, tcfg, hand = dec, cfg, []
    if not split_nodes:
        moved = _decode_tail(p, dec, cfg, is_split)
        if moved is not None:
            tail, tcfg, split_nodes, hand = moved
            run.use_cfg(tcfg)
    sp = single(split_nodes, "split on '%'", dec.qual)
    hand_ids = [n.id for n, _c in hand]
    goal_ids = hand_ids or [sp.id]
    # the variable that carries the (plus-replaced) text
    text_vars = set()
    for n in rep_nodes:
        if not (n.kind == 'stmt' and isinstance(n.ast, ast.Assign) and len(n.ast.targets) == 1 and isinstance(n.ast.targets[0], ast.Name)
                and is_replace(n.ast.value) and isinstance(n.ast.value.func.value, ast.Name)
                and n.ast.value.func.value.id == n.ast.targets[0].id):
            raise UnknownIdiom('decode(): plus replacement %s' % n.text())
        text_vars.add(n.ast.targets[0].id)
    for n in rep_nodes:
        verdict, tn = _guard_verdict(cfg, n.id, is_flag, True)
        if verdict == 'unknown':
            raise UnknownIdiom('decode(): test %s' % short(tn.ast, 80))
        run.check(verdict == 'proved', "'+' becomes a space only when unquote_plus is set", dec, n.ast, where='%s:%s' % (dec.file, n.lineno),
                  runtime_witness="decode('a+b', unquote_plus=False) == 'a b'")

    # shortcut returns: plain returns of a name under a "no % in it" test
    def pct_atom(e):
        return (isinstance(e, ast.Compare) and len(e.ops) == 1 and isinstance(e.ops[0], (ast.In, ast.NotIn))
                and isinstance(e.left, ast.Constant) and e.left.value == '%')

    # the text that is split / returned is the replaced one
    if len(text_vars) > 1:
        raise UnknownIdiom('decode(): several text variables %s' % sorted(text_vars))
    tv = next(iter(text_vars)) if text_vars else None
    if tv is None:
        raise AnchorError("decode(): no replace('+', ' ') found")
    binds = [b for b in _assignments(dec.node, tv) if not is_replace(b[1])]
    for s, v in binds:
        if any(v is c for _n, c in hand):
            continue       # the name is re-used for the decoded result: `text = H(text)` (which one a return means is decided below)
        if not (isinstance(v, ast.Name) and v.id == src):
            raise UnknownIdiom('decode(): %s is also bound by %s' % (tv, short(s, 60)))
    # what decode() does with the helper's answer: bound to a local (result_vars: name -> binding nodes) or returned
    result_vars: Dict[str, List[int]] = {}
    handed_rets = []
    for n, c in hand:
        if not (isinstance(c.args[0], ast.Name) and c.args[0].id == tv):
            raise UnknownIdiom('decode(): %s is not handed the text %s' % (short(c, 60), tv))
        a = n.ast if n.kind == 'stmt' else None
        if isinstance(a, ast.Return) and a.value is c:
            handed_rets.append(n)
        elif isinstance(a, (ast.Assign, ast.AnnAssign)) and a.value is c and all(
                isinstance(t, ast.Name) for t in (a.targets if isinstance(a, ast.Assign) else [a.target])) and (
                not isinstance(a, ast.Assign) or len(a.targets) == 1):
            result_vars.setdefault((a.targets[0] if isinstance(a, ast.Assign) else a.target).id, []).append(n.id)
        else:
            raise UnknownIdiom('decode(): the result of %s is neither bound to a local nor returned: %s' % (short(c, 40), n.text()))
        if flow.find_path(cfg, [b for (b, l) in cfg.succ[n.id] if l != 'exc'], hand_ids, edge_filter=flow.no_exc) is not None:
            raise UnknownIdiom('decode(): %s may run twice' % short(c, 40))
    memo = _r4_memo(run, dec, cfg, result_vars, [c for _n, c in hand])
    shortcut = []
    for n in cfg.live_nodes():
        if n.kind == 'stmt' and isinstance(n.ast, ast.Return) and isinstance(n.ast.value, ast.Name):
            x = n.ast.value.id
            if x in result_vars:
                # which value the name holds here: the helper's answer (its binding dominates, nothing re-binds the name in
                # between) or still the text (no binding of the answer reaches)
                b_ids = result_vars[x]
                after = flow.reachable(cfg, [b for i in b_ids for (b, l) in cfg.succ[i] if l != 'exc'], edge_filter=flow.no_exc)
                if n.id in after:
                    others = [i for s, _v in _assignments(dec.node, x) for i in cfg.nodes_for(s) if i not in b_ids]
                    if not flow.dominated_by_nodes(cfg, n.id, b_ids) or any(
                            o in after and n.id in flow.reachable(cfg, [o], edge_filter=flow.no_exc) for o in others):
                        raise UnknownIdiom('decode(): %s holds the text on one path and the decoded result on another at %s' % (x, n.text()))
                    handed_rets.append(n)
                    continue
            if x in memo:
                continue       # an answer kept from an earlier call (what is kept, and under which key: _r4_memo)
            shortcut.append(n)
    if hand and not handed_rets:
        raise AnchorError('decode(): the result of %s is never returned' % tail.name)
    for n, c in hand:
        run.ok('decode() hands the text to the helper that holds the re-encoding, the split at b"%" and the token loop', dec.loc(c), c)

    def assume(e):
        if is_flag(e):
            return True
        if isinstance(e, ast.Compare) and len(e.ops) == 1 and isinstance(e.left, ast.Constant) and e.left.value == '+':
            if isinstance(e.ops[0], ast.In):
                return True
            if isinstance(e.ops[0], ast.NotIn):
                return False
        return None

    goals = goal_ids + [n.id for n in shortcut]
    path = flow.find_path(cfg, [cfg.entry], goals, avoid_nodes=[n.id for n in rep_nodes], edge_filter=_feasible(cfg, assume))
    sp0 = cfg.node(goal_ids[0])
    run.check(path is None, "with unquote_plus set, every '+' is replaced by a space before the text is split at '%' or returned", dec,
              cfg.node(path[-1]).ast if path else sp0.ast, where='%s:%s' % (dec.file, (cfg.node(path[-1]) if path else sp0).lineno),
              witness=flow.describe_path(cfg, path) if path else None, runtime_witness="decode('a+b') == 'a+b' or decode('%2B+') == '+ +'")
    for n in rep_nodes:
        back = flow.find_path(cfg, goal_ids, [n.id])
        run.check(back is None, "'+' is replaced before splitting (an escaped %2B never turns into a space)", dec, n.ast,
                  where='%s:%s' % (dec.file, n.lineno), runtime_witness="decode('%2B') == ' '")

    n_short = 0
    for n in shortcut:
        verdict = None
        for t in cfg.live_nodes():
            if t.kind != 'test':
                continue
            for a in [x for x in walk_self(t.ast) if pct_atom(x)]:
                for (y, l) in cfg.succ[t.id]:
                    if l in ('T', 'F') and flow.dominated_by_edge(cfg, n.id, (t.id, y, l)):
                        from .common import implied
                        r = implied(t.ast, l == 'T', lambda e, a=a: e is a)
                        if r is None:
                            continue
                        absent = (not r) if isinstance(a.ops[0], ast.In) else r
                        if absent:
                            verdict = a
        if verdict is None:
            run.fail("an input is returned undecoded only when it contains no '%'", dec, n.ast, where='%s:%s' % (dec.file, n.lineno),
                     runtime_witness="decode('%41') == '%41'")
            continue
        n_short += 1
        tested = verdict.comparators[0]
        run.check(isinstance(tested, ast.Name) and tested.id in (tv, src) and n.ast.value.id == tv,
                  "the no-'%' shortcut tests the text and returns its plus-replaced form", dec, n.ast, where='%s:%s' % (dec.file, n.lineno),
                  runtime_witness="decode('a+b') == 'a+b'")
    if not n_short:
        raise AnchorError("decode(): no-'%' shortcut not found")
    # split source: text.encode() (UTF-8)
    call = [c for c in sp.calls() if is_split(c, tail)][0]
    ttv = tv
    if tail is not dec:
        # inside the helper the text is its one parameter (never re-bound there)
        ttv = tail.params()[0]
        if _assignments(tail.node, ttv):
            raise UnknownIdiom('%s: the parameter %s is re-bound' % (tail.qual, ttv))
        _r4_memo(run, tail, tcfg, {}, [])
        inline = tail.qual in paths
    recv = _expand_in(tail, call.func.value, ttv)
    u = _utf8_encode_of(recv, ttv)
    if u is None:
        raise UnknownIdiom('decode(): split receiver %s' % short(call.func.value, 60))
    run.check(u and split_sep(call, tail) == b'%', 'the text is re-encoded as UTF-8 (lossless) and split at b"%"', tail, recv,
              where='%s:%s' % (tail.file, sp.lineno), runtime_witness="decode('\\u00e9%41') raises or mangles the non-ASCII character")
    # tail call into the joiners with the token list
    if not (sp.kind == 'stmt' and isinstance(sp.ast, ast.Assign) and len(sp.ast.targets) == 1 and isinstance(sp.ast.targets[0], ast.Name)):
        raise UnknownIdiom('decode(): split result is not bound to a local')
    toks = sp.ast.targets[0].id
    _r4_unbounded_tokens(run, tail, tcfg, sp, call, toks)
    n_handed = 0
    if tail is not dec:
        # decode() itself: every return is a shortcut, the helper's answer or a kept answer (classified above)
        for n in cfg.live_nodes():
            if n.kind == 'stmt' and isinstance(n.ast, ast.Return) and n not in shortcut and n not in handed_rets \
                    and not (isinstance(n.ast.value, ast.Name) and n.ast.value.id in memo):
                raise UnknownIdiom('decode(): return %s' % short(n.ast.value, 80))
    dec_outer, dec, cfg = dec, tail, tcfg
    for n in cfg.live_nodes():
        if n.kind == 'stmt' and isinstance(n.ast, ast.Return) and (dec is not dec_outer or (
                n not in shortcut and not (isinstance(n.ast.value, ast.Name) and n.ast.value.id in memo))):
            v = n.ast.value
            if inline and isinstance(v, ast.Call) and isinstance(v.func, ast.Attribute) and v.func.attr == 'decode':
                continue  # inline path, checked above
            if isinstance(v, ast.Call) and isinstance(v.func, ast.Name) and len(v.args) == 1 and not v.keywords \
                    and _token_window(p, dec, v.args[0], toks) not in (None, 'all'):
                run.fail(R4_ALL_TOKENS, dec, v, where='%s:%s' % (dec.file, n.lineno),
                         witness=['only the tokens %s are handed to the joiner' % short(v.args[0], 60)],
                         runtime_witness=R4_ALL_TOKENS_RW)
                continue
            if not (isinstance(v, ast.Call) and isinstance(v.func, ast.Name) and len(v.args) == 1
                    and _token_window(p, dec, v.args[0], toks) == 'all' and not v.keywords):
                raise UnknownIdiom('decode(): return %s' % short(v, 80))
            cands = _callee_candidates(p, dec, v.func)
            if not cands:
                raise UnknownIdiom('decode(): callee %s' % short(v.func, 40))
            n_handed += 1
            for c in cands:
                run.check(c in paths, 'decode() hands long inputs to a joiner with the same escape skeleton', dec, v,
                          where='%s:%s' % (dec.file, n.lineno), witness=['candidate %s' % c])
    if not inline and not n_handed:
        raise AnchorError('decode(): neither an inline token loop nor a call of a token joiner found')


R4_ALL_TOKENS = ("every '%' of the input starts a token that goes through the escape table: the tokenisation of the text has no "
                 "bound on the number of tokens (no maxsplit, no truncation of the token list)")
R4_ALL_TOKENS_RW = "decode('%41' * 2000) leaves the escapes after the bound undecoded: decode(encode_value(s)) != s for a long s"


def _token_window(p, f: Func, e, toks: str) -> Optional[str]:
    """e hands on the token list `toks`: 'all' (the name, a full copy toks[:] / toks[0:] / list(toks) / tuple(toks)),
    'bounded' (a slice with an upper bound or a step, itertools.islice); None: e has another shape."""
    if isinstance(e, ast.Name) and e.id == toks:
        return 'all'
    if isinstance(e, ast.Subscript) and isinstance(e.value, ast.Name) and e.value.id == toks and isinstance(e.slice, ast.Slice):
        lo = p.fold(f.module, e.slice.lower, None, None) if e.slice.lower is not None else None
        if e.slice.upper is None and e.slice.step is None:
            return 'all' if lo in (None, 0) else None
        hi = p.fold(f.module, e.slice.upper, None, None) if e.slice.upper is not None else None
        st = p.fold(f.module, e.slice.step, None, None) if e.slice.step is not None else None
        if lo in (None, 0) and (e.slice.upper is None or type(hi) is int and hi >= 0) and (e.slice.step is None or type(st) is int and st >= 1) \
                and not (e.slice.upper is None and st == 1):
            return 'bounded'
        return None
    if isinstance(e, ast.Call) and not e.keywords and e.args and isinstance(e.args[0], ast.Name) and e.args[0].id == toks:
        q = p.resolve_expr(f.module, e.func, f)
        if q in ('builtins.list', 'builtins.tuple') and len(e.args) == 1:
            return 'all'
        if q == 'itertools.islice' and len(e.args) >= 2:
            return 'bounded'
    return None


def _r4_unbounded_tokens(run, dec: Func, cfg, sp, call: ast.Call, toks: str):
    """R4 clause: the split that tokenises the text is unbounded, and the token
    list reaches the loops whole.  `x.split(b'%', N)` leaves everything after
    the N-th '%' in the last token, which the loops copy through undecoded
    after its first escape.  Witness: decode('%41' * 2000) != 'A' * 2000."""
    p = run.project
    where = '%s:%s' % (dec.file, sp.lineno)
    bound = None
    extra = list(call.args[1:])
    for k in call.keywords:
        if k.arg == 'maxsplit':
            extra.append(k.value)
        elif k.arg != 'sep':
            raise UnknownIdiom('decode(): arguments of %s' % short(call, 80))
    if len(extra) > 1:
        raise UnknownIdiom('decode(): arguments of %s' % short(call, 80))
    if extra:
        bound = p.fold(dec.module, extra[0], None, dec)
        if isinstance(extra[0], ast.UnaryOp) and isinstance(extra[0].op, ast.USub) and isinstance(extra[0].operand, ast.Constant) \
                and type(extra[0].operand.value) is int:
            bound = -extra[0].operand.value
        if bound is UNKNOWN or type(bound) is not int:
            raise UnknownIdiom('decode(): the maxsplit argument of %s is not a constant' % short(call, 80))
    run.check(bound is None or bound < 0, R4_ALL_TOKENS, dec, call, where=where,
              witness=['maxsplit = %s' % bound] if bound is not None else None, runtime_witness=R4_ALL_TOKENS_RW)
    # the token list is not cut down between the split and its consumers
    for (stmt, val) in _assignments(dec.node, toks):
        if stmt is sp.ast:
            continue
        w = _token_window(p, dec, val, toks) if val is not None else None
        if w == 'bounded':
            run.fail(R4_ALL_TOKENS, dec, stmt, where=dec.loc(stmt), witness=['the token list is truncated by %s' % short(stmt, 60)],
                     runtime_witness=R4_ALL_TOKENS_RW)
        elif w != 'all':
            raise UnknownIdiom('decode(): the token list %s is also bound by %s' % (toks, short(stmt, 60)))
    for n in walk_self(dec.node):
        if isinstance(n, ast.Delete):
            for t in n.targets:
                if isinstance(t, ast.Subscript) and isinstance(t.value, ast.Name) and t.value.id == toks:
                    lo = p.fold(dec.module, t.slice.lower, None, None) if isinstance(t.slice, ast.Slice) and t.slice.lower is not None else None
                    if isinstance(t.slice, ast.Slice) and t.slice.upper is None and t.slice.step is None and type(lo) is int and lo >= 1:
                        run.fail(R4_ALL_TOKENS, dec, n, where=dec.loc(n), witness=['the token list is truncated by %s' % short(n, 60)],
                                 runtime_witness=R4_ALL_TOKENS_RW)
                    else:
                        raise UnknownIdiom('decode(): %s' % short(n, 60))


def _expand_in(f: Func, e, stop: str):
    """Expand single-assignment locals, but not the variable `stop`."""
    depth = 4
    while depth > 0 and isinstance(e, ast.Name) and e.id != stop:
        binds = _assignments(f.node, e.id)
        plain = [b for b in binds if b[1] is not None]
        # a variable re-used for several stages: take the binding that is a call on `stop`
        cand = [b for b in plain if isinstance(b[1], ast.Call) and isinstance(b[1].func, ast.Attribute)
                and isinstance(b[1].func.value, ast.Name) and b[1].func.value.id == stop]
        if len(plain) == 1:
            e = plain[0][1]
        elif len(cand) == 1:
            e = cand[0][1]
        else:
            break
        depth -= 1
    return e


def _callee_candidates(p, f: Func, fexpr) -> List[str]:
    q = p.resolve_expr(f.module, fexpr, f)
    if q is None:
        return []
    if q in p.funcs:
        return [q]
    head, _, tail = q.rpartition('.')
    m = p.modules.get(head)
    if m is None or tail not in m.consts:
        return []
    v = m.consts[tail]
    outs = []
    stack = [v]
    while stack:
        x = stack.pop()
        if isinstance(x, ast.IfExp):
            stack += [x.body, x.orelse]
        elif isinstance(x, (ast.Name, ast.Attribute)):
            q2 = p.resolve_expr(m, x)
            if q2 in p.funcs:
                outs.append(q2)
            else:
                return []
        else:
            return []
    return sorted(outs)


# ---------------------------------------------------------------------------
# R5 check-escaped loop
# ---------------------------------------------------------------------------

# -- look-alike: a character-class test made on a slice ----------------------
#
# `x[a:b] in '0123...'` looks like "the character at a is a hex digit", but an
# empty slice is `in` every string: where the slice can be empty (a % at the
# very end of the input) the test passes without any digit being there.  It is
# a test of the character only where the slice is provably non-empty, i.e. a
# length check on the same path establishes len(x) > a.

def _lin(e) -> Optional[Tuple[Optional[str], int]]:
    """(v, c) when e == v + c for a local name v (or v None: the constant c)."""
    if e is None:
        return (None, 0)
    if isinstance(e, ast.Constant) and type(e.value) is int:
        return (None, e.value)
    if isinstance(e, ast.Name):
        return (e.id, 0)
    if isinstance(e, ast.UnaryOp) and isinstance(e.op, ast.USub):
        r = _lin(e.operand)
        return (None, -r[1]) if r is not None and r[0] is None else None
    if isinstance(e, ast.BinOp) and isinstance(e.op, (ast.Add, ast.Sub)):
        l, r = _lin(e.left), _lin(e.right)
        if l is None or r is None:
            return None
        if isinstance(e.op, ast.Sub):
            return (l[0], l[1] - r[1]) if r[0] is None else None
        if l[0] is not None and r[0] is not None:
            return None
        return (l[0] or r[0], l[1] + r[1])
    return None


def _mentions_len(e) -> bool:
    return any(isinstance(x, ast.Call) and isinstance(x.func, ast.Name) and x.func.id == 'len' for x in ast.walk(e))


def _order_facts(e, target) -> Optional[List[Tuple[ast.AST, bool]]]:
    """What is known to have been evaluated, and with which outcome, when
    `target` (a sub-expression of e) is evaluated: the earlier operands of the
    enclosing and/or chains and the tests of enclosing conditional
    expressions.  None when target is not inside e."""
    if e is target:
        return []
    if isinstance(e, ast.BoolOp):
        for i, v in enumerate(e.values):
            sub = _order_facts(v, target)
            if sub is not None:
                return [(u, isinstance(e.op, ast.And)) for u in e.values[:i]] + sub
        return None
    if isinstance(e, ast.IfExp):
        sub = _order_facts(e.test, target)
        if sub is not None:
            return sub
        for branch, truth in ((e.body, True), (e.orelse, False)):
            sub = _order_facts(branch, target)
            if sub is not None:
                return [(e.test, truth)] + sub
        return None
    if isinstance(e, (ast.Lambda, ast.ListComp, ast.SetComp, ast.DictComp, ast.GeneratorExp)):
        return None if not any(x is target for x in ast.walk(e)) else []
    for ch in ast.iter_child_nodes(e):
        sub = _order_facts(ch, target)
        if sub is not None:
            return sub
    return None


_NEG = {ast.Eq: ast.NotEq, ast.NotEq: ast.Eq, ast.Lt: ast.GtE, ast.GtE: ast.Lt, ast.Gt: ast.LtE, ast.LtE: ast.Gt}
_FLIP = {ast.Eq: ast.Eq, ast.NotEq: ast.NotEq, ast.Lt: ast.Gt, ast.Gt: ast.Lt, ast.LtE: ast.GtE, ast.GtE: ast.LtE}


def _length_bounds(f: Func, expr, truth: bool) -> Tuple[List[Tuple[str, Optional[str], int, str]], bool]:
    """Lower bounds `len(X) >= v + k` that follow from `expr` having the
    outcome `truth`: ([(dump of X, v, k, 'len' | 'nonempty')], opaque) - opaque
    is set when some part that mentions a length could not be read."""
    def expand(e):
        if isinstance(e, ast.Name):
            binds = _assignments(f.node, e.id)
            if len(binds) == 1 and binds[0][1] is not None and _mentions_len(binds[0][1]):
                return binds[0][1]
        return e

    def len_arg(e):
        e = expand(e)
        if isinstance(e, ast.Call) and isinstance(e.func, ast.Name) and e.func.id == 'len' and len(e.args) == 1 and not e.keywords:
            return e.args[0]
        return None

    out: List[Tuple[str, Optional[str], int, str]] = []
    opaque = False

    def pair(l, op, r, truth):
        nonlocal opaque
        if not (_mentions_len(expand(l)) or _mentions_len(expand(r))):
            return
        t = type(op)
        if t not in _NEG:
            opaque = True
            return
        if not truth:
            t = _NEG[t]
        X, other = len_arg(l), r
        if X is None:
            X, other, t = len_arg(r), l, _FLIP[t]
        b = _lin(other)
        if X is None or b is None or _mentions_len(other):
            opaque = True
            return
        if t is ast.Gt:
            out.append((ast.dump(X), b[0], b[1] + 1, 'len'))
        elif t in (ast.GtE, ast.Eq):
            out.append((ast.dump(X), b[0], b[1], 'len'))
        # <, <=, != give no lower bound

    def walk(e, truth):
        nonlocal opaque
        if isinstance(e, ast.UnaryOp) and isinstance(e.op, ast.Not):
            walk(e.operand, not truth)
        elif isinstance(e, ast.BoolOp) and (isinstance(e.op, ast.And) == truth):
            for v in e.values:
                walk(v, truth)
        elif isinstance(e, ast.Compare):
            if len(e.ops) == 1 and isinstance(e.ops[0], (ast.Eq, ast.NotEq)) and \
                    any(isinstance(x, ast.Constant) and x.value == '' for x in (e.left, e.comparators[0])):
                # X != ''  (or: not X == '')
                other = e.comparators[0] if isinstance(e.left, ast.Constant) else e.left
                if isinstance(e.ops[0], ast.NotEq) == truth:
                    out.append((ast.dump(other), None, 1, 'nonempty'))
            elif len(e.ops) == 1:
                pair(e.left, e.ops[0], e.comparators[0], truth)
            elif truth:
                operands = [e.left] + list(e.comparators)
                for i, op in enumerate(e.ops):
                    pair(operands[i], op, operands[i + 1], True)
            elif _mentions_len(e):
                opaque = True
        elif isinstance(e, (ast.Name, ast.Subscript)) and not _mentions_len(expand(e)):
            if truth:
                out.append((ast.dump(e), None, 1, 'nonempty'))   # a non-empty string is what is truthy
        elif _mentions_len(e) or any(isinstance(x, ast.Name) and _mentions_len(expand(x)) for x in ast.walk(e)):
            opaque = True

    walk(expr, truth)
    return out, opaque


def _binds(n, names: Set[str]) -> bool:
    if n.kind == 'iter' and any(isinstance(x, ast.Name) and x.id in names for x in ast.walk(n.stmt.target)):
        return True
    return any(isinstance(x, ast.Name) and x.id in names and isinstance(x.ctx, (ast.Store, ast.Del)) for x in n.walk())


def _const_bool(e) -> Optional[bool]:
    return e.value if isinstance(e, ast.Constant) and isinstance(e.value, bool) else None


def _scan_helper(p, enc: Func, e, up: str) -> Optional[Func]:
    """`e` is a call H(<input>) of a plain module-level predicate that holds the already-escaped scan: one
    parameter, every return is the constant True or False, and it splits its parameter at '%'.  The encoder's test
    `if H(uri):` is then read through H: its True outcome is what leaving the token loop normally is in the inline
    form, its False outcome what `break` is (R5 decides inside H what True requires)."""
    if not (isinstance(e, ast.Call) and len(e.args) == 1 and not e.keywords and isinstance(e.args[0], ast.Name) and e.args[0].id == up):
        return None
    h = p.resolve_callable(enc, e.func)
    if not isinstance(h, Func) or h.cls is not None or h.parent is not None or h.is_async or h.decorators:
        return None
    a = h.node.args
    if len(a.args) + len(a.posonlyargs) != 1 or a.vararg or a.kwarg or a.kwonlyargs:
        return None
    sup = h.params()[0]
    if any(isinstance(x, ast.Name) and x.id == sup and isinstance(x.ctx, (ast.Store, ast.Del)) for x in ast.walk(h.node)):
        return None
    rets = [x for x in walk_no_nested(h.node) if isinstance(x, ast.Return)]
    if not rets or any(x.value is None or _const_bool(x.value) is None for x in rets):
        return None
    if any(isinstance(x, (ast.Yield, ast.YieldFrom, ast.Global, ast.Nonlocal)) for x in ast.walk(h.node)):
        return None
    if not any(isinstance(x, ast.Call) and isinstance(x.func, ast.Attribute) and x.func.attr == 'split' and isinstance(x.func.value, ast.Name)
               and x.func.value.id == sup and len(x.args) == 1 and isinstance(x.args[0], ast.Constant) and x.args[0].value == '%'
               for x in ast.walk(h.node)):
        return None
    return h


def _scan_true_after_loop(p, h: Func) -> bool:
    """every `return True` of the scan helper lies behind the normal exit of a loop over the tokens of its parameter"""
    sup = h.params()[0]
    cfg = cfg_of(h, p)
    done = []
    for n in cfg.live_nodes():
        if n.kind == 'iter' and isinstance(n.stmt, ast.For):
            it = n.stmt.iter.value if isinstance(n.stmt.iter, ast.Subscript) else n.stmt.iter
            base = _expand(h, it)
            if isinstance(base, ast.Call) and isinstance(base.func, ast.Attribute) and base.func.attr == 'split' \
                    and isinstance(base.func.value, ast.Name) and base.func.value.id == sup:
                done += flow.edges_out(cfg, n.id, 'done')
    trues = [n for n in cfg.live_nodes() if n.kind == 'stmt' and isinstance(n.ast, ast.Return) and _const_bool(n.ast.value) is True]
    return bool(trues) and all(any(flow.dominated_by_edge(cfg, n.id, e) for e in done) for n in trues)


def _slice_class_tests(run, fa, enc: Func, cfg, in_heuristic) -> bool:
    """Frozen look-alike: a membership test with a slice on the left and a
    string (a character class) on the right, inside the escape check.
    Reports it unless the slice is provably non-empty; True when it fired."""
    fired = False

    def expand(e, depth=3):
        while depth > 0 and isinstance(e, ast.Name):
            binds = _assignments(enc.node, e.id)
            if len(binds) != 1 or binds[0][1] is None:
                break
            e = binds[0][1]
            depth -= 1
        return e

    for n in cfg.live_nodes():
        if n.copy or n.ast is None:
            continue
        root = n.ast
        for cmp_ in [x for x in n.walk() if isinstance(x, ast.Compare)]:
            if not isinstance(cmp_.ops[0], (ast.In, ast.NotIn)):
                continue
            left = expand(cmp_.left)
            if not (isinstance(left, ast.Subscript) and isinstance(left.slice, ast.Slice)):
                continue
            if not in_heuristic(n.id):
                continue   # not part of the already-escaped heuristic
            hv = fa.ev.expr(cmp_.comparators[0], dict(fa.env))
            if isinstance(hv, (set, frozenset, tuple, list, dict)):
                if '' not in hv:
                    continue   # element-wise membership: an empty slice is not a member
            elif not isinstance(hv, str):
                raise UnknownIdiom('%s: right operand of %s' % (enc.qual, short(cmp_, 60)))
            if len(cmp_.ops) != 1:
                raise UnknownIdiom('%s: chained comparison %s' % (enc.qual, short(cmp_, 60)))
            sl = left.slice
            lo, hi = _lin(sl.lower), (_lin(sl.upper) if sl.upper is not None else None)
            if sl.step is not None or lo is None or (sl.upper is not None and hi is None):
                raise UnknownIdiom('%s: bounds of the slice in %s' % (enc.qual, short(cmp_, 60)))
            if hi is not None and not (hi[0] == lo[0] and hi[1] > lo[1]) and not (lo[0] is None and lo[1] < 0 and hi[0] is None and hi[1] < 0 and hi[1] > lo[1]):
                raise UnknownIdiom('%s: slice %s is not of the form x[a:a+k]' % (enc.qual, short(left, 60)))
            # what has to be established: len(X) >= v + k for one of these
            need: List[Tuple[str, Optional[str], int, Set[str]]] = []
            for whole in {ast.dump(cmp_.left), ast.dump(left)}:
                need.append((whole, None, 1, {x.id for x in ast.walk(cmp_.left) if isinstance(x, ast.Name)}))
            base_names = {x.id for x in ast.walk(left.value) if isinstance(x, ast.Name)}
            if lo[0] is None and lo[1] < 0:
                need.append((ast.dump(left.value), None, 1 if hi is None else -lo[1], base_names))
            else:
                need.append((ast.dump(left.value), lo[0], lo[1] + 1, base_names | ({lo[0]} if lo[0] else set())))
            # facts: evaluation order inside the statement, then dominating branch outcomes
            facts: List[Tuple[ast.AST, bool, Optional[Tuple[int, int]]]] = [(e, t, None) for (e, t) in (_order_facts(root, cmp_) or [])]
            for t in cfg.live_nodes():
                if t.kind != 'test' or t.id == n.id:
                    continue
                for (y, l) in cfg.succ[t.id]:
                    if l in ('T', 'F') and flow.dominated_by_edge(cfg, n.id, (t.id, y, l)):
                        facts.append((t.ast, l == 'T', (t.id, y)))
            proved = opaque = False
            for (e, truth, edge) in facts:
                bounds, op = _length_bounds(enc, e, truth)
                opaque = opaque or op
                for (X, v, k, kind) in bounds:
                    hit = [nd for nd in need if nd[0] == X and nd[1] == v and k >= nd[2]]
                    if not hit:
                        if kind == 'len' and not any(nd[0] == X for nd in need):
                            opaque = True   # a length fact about something else (possibly related): not read
                        continue
                    if edge is not None:
                        # the names involved keep their value from the branch to the test
                        window = flow.reachable(cfg, [edge[1]], avoid_nodes=[edge[0]]) & flow.co_reachable(cfg, [n.id], avoid_nodes=[edge[0]])
                        names = set().union(*[nd[3] for nd in hit])
                        if any(_binds(cfg.node(w), names) for w in window if w != n.id):
                            opaque = True
                            continue
                    proved = True
            what = ('a membership test of a slice in a character class is used as "this character is a hex digit" only where the '
                    'slice is provably non-empty (an empty slice is `in` every string)')
            if proved:
                run.ok(what, enc.loc(cmp_), cmp_)
                continue
            if opaque:
                raise UnknownIdiom('%s: cannot decide whether the slice in %s may be empty (a length test on the path is not understood)'
                                   % (enc.qual, short(cmp_, 60)))
            if lo[0] is not None:
                origins = _assignments(enc.node, lo[0])
                if any(isinstance(st, (ast.For, ast.AsyncFor)) for (st, _v) in origins) or not origins:
                    raise UnknownIdiom('%s: %s in %s is a loop variable/parameter; its range is not modelled' % (enc.qual, lo[0], short(cmp_, 60)))
            fired = True
            run.fail(what + ': here nothing on the path bounds the length, so a % (or % and one digit) at the end of the input '
                     'passes as a well-formed escape', enc, cmp_, where=enc.loc(cmp_),
                     witness=['%s is \'\' when len(%s) < %s; \'\' in %r is True' % (
                         short(left, 60), short(left.value, 40), ('%s + %d' % (lo[0], lo[1] + 1)) if lo[0] else str(max(lo[1] + 1, 1)),
                         hv if isinstance(hv, str) else sorted(hv)[:4])],
                     runtime_witness="encode_check_escaped('/sale/discount-100%') and ('%2') are returned unchanged")
    return fired


def _keeps_percent(fa, enc: Func, up: str, v) -> bool:
    """The returned value maps the input through a char table that lets '%' through (a return that
    leaves existing escapes alone without being `return <input>`)."""
    try:
        parts = _return_parts(enc, up, tuple(fa.tables), v)
    except UnknownIdiom:
        return False
    return any(k[0] == 'enc' and '%' in fa.tables[k[3]][1] for k in parts)


# -- the escape scan written as a find() loop --------------------------------

def _find_call(e, up: str):
    """e is `<up>.find('%'[, start])` -> (start expression or None,); else None."""
    if isinstance(e, ast.Call) and isinstance(e.func, ast.Attribute) and e.func.attr in ('find', 'index') and isinstance(e.func.value, ast.Name) \
            and e.func.value.id == up and 1 <= len(e.args) <= 2 and not e.keywords and isinstance(e.args[0], ast.Constant) and e.args[0].value == '%' \
            and e.func.attr == 'find':
        return (e.args[1] if len(e.args) == 2 else None,)
    return None


def _found_atom(e, pos: str) -> Optional[bool]:
    """e is `pos != -1` / `pos >= 0` / `pos > -1` (-> True: holds iff a % was found) or `pos == -1` / `pos < 0` (-> False)."""
    if not (isinstance(e, ast.Compare) and len(e.ops) == 1 and isinstance(e.left, ast.Name) and e.left.id == pos):
        return None
    c = _lin(e.comparators[0])
    if c is None or c[0] is not None:
        return None
    op, k = type(e.ops[0]), c[1]
    return {(ast.NotEq, -1): True, (ast.GtE, 0): True, (ast.Gt, -1): True, (ast.Eq, -1): False, (ast.Lt, 0): False, (ast.LtE, -1): False}.get((op, k))


def _find_loops(enc: Func, up: str) -> List[Tuple[ast.While, str]]:
    """`while <pos was found>:` loops whose position variable is only ever bound to <up>.find('%', ...)."""
    out = []
    for w in walk_self(enc.node):
        if isinstance(w, ast.While) and isinstance(w.test, ast.Compare) and isinstance(w.test.left, ast.Name):
            pos = w.test.left.id
            if _found_atom(w.test, pos) is not True or pos in enc.params():
                continue
            binds = _assignments(enc.node, pos)
            if binds and all(v is not None and _find_call(v, up) is not None for _s, v in binds):
                out.append((w, pos))
    return out


def _r5_find_scan(run, fa, enc: Func, cfg, up: str, found, is_check, in_heuristic):
    """R5 on the find-loop form of the already-escaped scan.  Clause: after each % the test establishes BOTH that exactly
    two characters follow and that both are hex digits.  Decided by abstract evaluation of the loop's tests over the
    cells of "what follows the %": nothing / one hex digit / one other character (the input ends there), other+hex,
    hex+other, hex+hex.  A slice uri[pos+a:pos+b] is the matching window of the cell (shorter when the input ends), and
    the tests on it are evaluated on that window: len(), truthiness, == '', .rstrip/.lstrip/.strip(<digits>) (only what is
    no digit survives: '' for an empty or all-digit window), `in <digits>` ('' is in every string), all(c in <digits> ...)
    (true for ''), indexing.  In every cell but hex+hex no path may lead back to the loop test or to the accepting
    return.  A test on the window that is not read is UnknownIdiom, never a verdict.
    W: encode_check_escaped('/sale/100%') and ('/a%20b/100%2') are returned unchanged."""
    p = run.project
    loop, pos = found
    tests = [n for n in cfg.live_nodes() if n.kind == 'test' and n.ast is loop.test]
    if not tests:
        raise UnknownIdiom('%s: loop header' % enc.qual)
    if not all(in_heuristic(t.id) for t in tests):
        raise UnknownIdiom('%s: the find() scan is not under the check_is_escaped test' % enc.qual)
    inside = {id(x) for x in ast.walk(loop)}
    set_in_loop = {x.id for x in ast.walk(loop) if isinstance(x, ast.Name) and isinstance(x.ctx, ast.Store)}
    pure_flags = set(getattr(cfg, 'flag_refined', None) or ())
    for t in cfg.live_nodes():
        if t.kind == 'test' and id(t.ast) not in inside:
            flags = sorted(({x.id for x in ast.walk(t.ast) if isinstance(x, ast.Name)} & set_in_loop) - pure_flags)
            if flags:
                raise UnknownIdiom('%s: the outcome of the escape check is carried by the local %s (test %s)' % (enc.qual, flags[0], short(t.ast, 60)))

    # every % is visited: the first search starts at the beginning, the next one at most 3 characters on (the two
    # characters skipped were found to be hex digits, so neither is a %)
    for s, v in _assignments(enc.node, pos):
        start = _find_call(v, up)[0]
        if id(s) not in inside:
            st = _lin(start) if start is not None else (None, 0)
            run.check(st == (None, 0), 'every % of the input is examined (the search starts at the beginning)', enc, v, where=enc.loc(s),
                      runtime_witness="encode_check_escaped('%zz%20') is returned unchanged")
        else:
            st = _lin(start) if start is not None else None
            if st is None or st[0] != pos:
                raise UnknownIdiom('%s: next search position %s' % (enc.qual, short(v, 60)))
            run.check(1 <= st[1] <= 3, 'every % of the input is examined (the next search starts at most behind the two characters just tested)',
                      enc, v, where=enc.loc(s), runtime_witness="encode_check_escaped('%20a%zz') is returned unchanged")

    accept, encoded = [], []
    for n in cfg.live_nodes():
        if n.kind == 'stmt' and isinstance(n.ast, ast.Return):
            v = n.ast.value
            if ((isinstance(v, ast.Name) and v.id == up) or _keeps_percent(fa, enc, up, v)) and _guard_verdict(cfg, n.id, is_check, True)[0] == 'proved':
                accept.append(n)
            else:
                encoded.append(n)
    if not accept:
        raise AnchorError('%s: no already-escaped shortcut' % enc.qual)
    done_edges = [e for t in tests for e in flow.edges_out(cfg, t.id, 'F')]
    past_done = flow.reachable(cfg, [cfg.entry], avoid_edges=done_edges)
    for n in accept:
        run.check(n.id not in past_done,
                  'the input is accepted as already escaped only after the loop examined every % without breaking', enc, n.ast,
                  where='%s:%s' % (enc.file, n.lineno), runtime_witness="encode_check_escaped('%20%zz') is returned unchanged")

    hexsets = []

    class _Raises(Exception):
        pass

    def digits(e) -> bool:
        hv = fa.ev.expr(e, dict(fa.env))
        if not isinstance(hv, (str, frozenset, set, tuple, list)) or not all(isinstance(x, str) and len(x) == 1 for x in hv):
            raise UnknownIdiom('%s: hex digit set %s' % (enc.qual, short(e, 40)))
        hexsets.append((e, frozenset(hv)))
        return True

    def window(e, cell, depth=3):
        """the classes ('H' hex digit / 'X' anything else) of the characters e denotes in this cell; None: no window"""
        if isinstance(e, ast.Name) and e.id not in (up, pos) and depth > 0:
            b = _assignments(loop, e.id)
            if len(b) == 1 and b[0][1] is not None and len(_assignments(enc.node, e.id)) == 1:
                return window(b[0][1], cell, depth - 1)
            return None
        if isinstance(e, ast.Subscript):
            if isinstance(e.value, ast.Name) and e.value.id == up:
                if isinstance(e.slice, ast.Slice):
                    lo, hi = _lin(e.slice.lower), (_lin(e.slice.upper) if e.slice.upper is not None else None)
                    if e.slice.step is not None or lo is None or hi is None or lo[0] != pos or hi[0] != pos or not (1 <= lo[1] <= hi[1] <= 3):
                        raise UnknownIdiom('%s: slice %s is not a window of the two characters after the %%' % (enc.qual, short(e, 60)))
                    return cell[lo[1] - 1:hi[1] - 1]
                ix = _lin(e.slice)
                if ix is None or ix[0] != pos or not (1 <= ix[1] <= 2):
                    raise UnknownIdiom('%s: %s is not one of the two characters after the %%' % (enc.qual, short(e, 60)))
                if ix[1] - 1 >= len(cell):
                    raise _Raises()
                return cell[ix[1] - 1:ix[1]]
            base = window(e.value, cell, depth)
            if base is None:
                return None
            if isinstance(e.slice, ast.Slice):
                lo, hi = _lin(e.slice.lower), _lin(e.slice.upper)
                if e.slice.step is not None or lo is None or hi is None or lo[0] is not None or hi[0] is not None:
                    raise UnknownIdiom('%s: slice %s' % (enc.qual, short(e, 60)))
                return base[(lo[1] if e.slice.lower is not None else None):(hi[1] if e.slice.upper is not None else None)]
            ix = _lin(e.slice)
            if ix is None or ix[0] is not None:
                raise UnknownIdiom('%s: index %s' % (enc.qual, short(e, 60)))
            if not (-len(base) <= ix[1] < len(base)):
                raise _Raises()
            return (base[ix[1]],)
        if isinstance(e, ast.Call) and isinstance(e.func, ast.Attribute) and e.func.attr in ('rstrip', 'lstrip', 'strip') and len(e.args) == 1 and not e.keywords:
            base = window(e.func.value, cell, depth)
            if base is None:
                return None
            digits(e.args[0])
            out = list(base)
            while out and out[-1] == 'H' and e.func.attr in ('rstrip', 'strip'):
                out.pop()
            while out and out[0] == 'H' and e.func.attr in ('lstrip', 'strip'):
                out.pop(0)
            return tuple(out)
        return None

    def touches(e) -> bool:
        names = {x.id for x in ast.walk(e) if isinstance(x, ast.Name)}
        local_windows = {n for n in set_in_loop if n != pos}
        return bool(names & ({up, pos} | local_windows))

    def truth(e, cell) -> Optional[bool]:
        if isinstance(e, ast.Constant):
            return bool(e.value)
        if isinstance(e, ast.UnaryOp) and isinstance(e.op, ast.Not):
            v = truth(e.operand, cell)
            return None if v is None else (not v)
        if isinstance(e, ast.BoolOp):
            stop = isinstance(e.op, ast.Or)
            unknown = False
            for v in e.values:          # short-circuit order: what follows a deciding operand is not evaluated
                r = truth(v, cell)
                if r is stop:
                    return stop
                if r is None:
                    unknown = True
                    break              # the operands behind an undecided one may or may not run
            return None if unknown else (not stop)
        w = window(e, cell)
        if w is not None:
            return len(w) > 0
        if isinstance(e, ast.Compare) and len(e.ops) == 1:
            l, op, r = e.left, e.ops[0], e.comparators[0]
            if isinstance(l, ast.Call) and isinstance(l.func, ast.Name) and l.func.id == 'len' and len(l.args) == 1:
                w = window(l.args[0], cell)
                c = _lin(r)
                if w is not None and c is not None and c[0] is None:
                    n, k = len(w), c[1]
                    return {ast.Eq: n == k, ast.NotEq: n != k, ast.Lt: n < k, ast.LtE: n <= k, ast.Gt: n > k, ast.GtE: n >= k}.get(type(op))
            if isinstance(op, (ast.Eq, ast.NotEq)) and any(isinstance(x, ast.Constant) and x.value == '' for x in (l, r)):
                w = window(r if isinstance(l, ast.Constant) else l, cell)
                if w is not None:
                    return (len(w) == 0) == isinstance(op, ast.Eq)
            if isinstance(op, (ast.In, ast.NotIn)):
                w = window(l, cell)
                if w is not None:
                    hv = fa.ev.expr(r, dict(fa.env))
                    if isinstance(hv, str):
                        digits(r)
                        # substring test: '' is in every string; one character is in it iff it is a digit; two: not read
                        member = True if not w else ((w[0] == 'H') if len(w) == 1 else (False if 'X' in w else None))
                    elif isinstance(hv, (set, frozenset, tuple, list, dict)) and all(isinstance(x, str) for x in hv):
                        if all(len(x) == 1 for x in hv):
                            digits(r)
                            member = (w[0] == 'H') if len(w) == 1 else False
                        elif all(len(x) == 2 and set(x) <= HEXDIG_BOTH for x in hv):
                            member = False if (len(w) != 2 or 'X' in w) else (True if frozenset(hv) >= frozenset(
                                a + b for a in HEXDIG_BOTH for b in HEXDIG_BOTH) else None)
                        else:
                            raise UnknownIdiom('%s: right operand of %s' % (enc.qual, short(e, 60)))
                    else:
                        raise UnknownIdiom('%s: right operand of %s' % (enc.qual, short(e, 60)))
                    return None if member is None else (member == isinstance(op, ast.In))
        if isinstance(e, ast.Call) and isinstance(e.func, ast.Name) and e.func.id in ('all', 'any') and len(e.args) == 1 \
                and isinstance(e.args[0], (ast.GeneratorExp, ast.ListComp)) and len(e.args[0].generators) == 1:
            g = e.args[0].generators[0]
            w = window(g.iter, cell)
            el = e.args[0].elt
            if w is not None and not g.ifs and isinstance(g.target, ast.Name) and isinstance(el, ast.Compare) and len(el.ops) == 1 \
                    and isinstance(el.ops[0], (ast.In, ast.NotIn)) and isinstance(el.left, ast.Name) and el.left.id == g.target.id:
                digits(el.comparators[0])
                vals = [(c == 'H') == isinstance(el.ops[0], ast.In) for c in w]
                return all(vals) if e.func.id == 'all' else any(vals)
        if touches(e):
            raise UnknownIdiom('%s: test %s on the characters after the %% is not read' % (enc.qual, short(e, 60)))
        return None

    raised = []

    def feasible_in(cell):
        def filt(a, b, l):
            if l == 'exc':
                return False
            n = cfg.node(a)
            if n.kind == 'test' and l in ('T', 'F') and id(n.ast) in inside and n.ast is not loop.test:
                try:
                    v = truth(n.ast, cell)
                except _Raises:
                    raised.append(n)    # IndexError: the encoder raises here, it neither continues nor accepts
                    return False
                if v is not None and v != (l == 'T'):
                    return False
            return True
        return filt

    cases = [('short', 'no character follows the %', [()]),
             ('short', 'a single character follows the %', [('H',), ('X',)]),
             ('c0', 'the first character after % is not a hex digit', [('X', 'H'), ('X', 'X')]),
             ('c1', 'the second character after % is not a hex digit', [('H', 'X')])]
    starts = [b for t in tests for (_a, b, _l) in flow.edges_out(cfg, t.id, 'T')]
    goals = [t.id for t in tests] + [n.id for n in accept]
    for kind, doc, cells in cases:
        path = cell_hit = None
        for cell in cells:
            del raised[:]
            path = flow.find_path(cfg, starts, goals, edge_filter=feasible_in(cell))
            if path is None and raised:
                # the test is reached in this cell (the search only asks about edges of nodes it got to) and indexes past the end
                path = flow.find_path(cfg, starts, [raised[0].id], edge_filter=feasible_in(cell)) or [raised[0].id]
                cell_hit = cell
                run.fail('when %s the loop breaks (the input is not taken as already escaped)' % doc, enc, 'escape check: %s' % doc, where=enc.loc(loop),
                         witness=['%s indexes past the end of the input here: IndexError' % short(raised[0].ast, 60)] + flow.describe_path(cfg, path),
                         runtime_witness="encode_check_escaped('abc%') raises IndexError")
                break
            if path is not None:
                cell_hit = cell
                break
        if path is not None and raised and cell_hit is not None and cfg.node(path[-1]) is raised[0]:
            continue
        wit = None
        if path is not None:
            wit = ['what follows the %% here: %s, then the input ends' % (' + '.join({'H': 'a hex digit', 'X': 'another character'}[c] for c in cell_hit)
                                                                         or 'nothing') if len(cell_hit) < 2 else
                   'what follows the %% here: %s' % ' + '.join({'H': 'a hex digit', 'X': 'another character'}[c] for c in cell_hit)] \
                + flow.describe_path(cfg, path)
        run.check(path is None, 'when %s the loop breaks (the input is not taken as already escaped)' % doc, enc,
                  'escape check: %s' % doc, where=enc.loc(loop), witness=wit,
                  runtime_witness={'short': "encode_check_escaped('abc%') / ('abc%2')", 'c0': "encode_check_escaped('%z0')",
                                   'c1': "encode_check_escaped('%0z')"}[kind] + ' is returned unchanged')
    if not hexsets:
        raise UnknownIdiom('%s: the escape check does not test the characters after %% against a digit set' % enc.qual)
    for node, hv in {id(n): (n, s) for n, s in hexsets}.values():
        run.check(hv == HEXDIG_BOTH, 'escapes are recognised by hex digits of both cases, and nothing else', enc, node,
                  where=enc.loc(node), witness=['%r' % _show(hv)], runtime_witness="encode_check_escaped('%2f') or ('%2g')")

    brks = [n for n in cfg.live_nodes() if n.kind == 'stmt' and isinstance(n.ast, ast.Break) and id(n.ast) in inside]
    if not brks:
        raise AnchorError('%s: no break in the escape check' % enc.qual)
    for b in brks:
        bad = flow.find_path(cfg, [b.id], [n.id for n in accept], edge_filter=flow.no_exc)
        run.check(bad is None, 'a malformed escape makes the encoder fall through to full encoding', enc, b.ast,
                  where='%s:%s' % (enc.file, b.lineno), witness=flow.describe_path(cfg, bad) if bad else None,
                  runtime_witness="encode_check_escaped('100% x') keeps the bare %")


def r5_check_escaped(run):
    p = run.project
    fs = _factories(run)
    fa = fs[(False, True)]
    enc = fa.enc
    # flag-sensitive graphs (see _r1_verbatim): a for/else written as `ok = True; for ...: if bad: ok = False; break` +
    # `if ok:` has, on the refined graph, the `if ok:` body behind the loop's normal exit only and every `break` behind
    # its other outcome -- the same path facts the for/else form has
    cfg = cfg_of(enc, p, refined=True)
    run.use_cfg(cfg)
    up = enc.node.args.args[0].arg

    def is_check(e):
        return isinstance(e, ast.Name) and e.id == fa.p_check

    # where the scan lives: in the encoder itself, or in a module-level predicate H(<input>) the encoder tests
    # (`if H(uri): return uri`): then H is read in place of the inline loop -- `return True` for leaving the loop
    # normally, `return False` for `break` -- and the encoder's test of H(uri) carries the outcome.
    outer_enc, outer_cfg, outer_up = enc, cfg, up
    scan_tests = []
    for t in cfg.live_nodes():
        if t.kind == 'test' and not t.copy:
            for c in walk_self(t.ast):
                h = _scan_helper(p, enc, c, up)
                if h is not None:
                    core, pol = t.ast, True
                    while isinstance(core, ast.UnaryOp) and isinstance(core.op, ast.Not):
                        core, pol = core.operand, not pol
                    if core is not c:
                        raise UnknownIdiom('%s: the outcome of %s is combined with other conditions in %s' % (enc.qual, short(c, 40), short(t.ast, 80)))
                    scan_tests.append((t, h, pol))
    scan = None
    if scan_tests:
        if len(scan_tests) != 1 or any(isinstance(n, ast.For) for n in walk_self(enc.node)):
            raise UnknownIdiom('%s: more than one place holds the escape scan' % enc.qual)
        scan = scan_tests[0]
        enc = scan[1]
        cfg = cfg_of(enc, p, refined=True)
        run.use_cfg(cfg)
        up = enc.params()[0]

    def in_heuristic(nid):
        return scan is not None or _guard_verdict(cfg, nid, is_check, True)[0] == 'proved'

    loops = []
    for n in walk_self(enc.node):
        if isinstance(n, ast.For) and isinstance(n.target, ast.Name):
            it = n.iter
            if isinstance(it, ast.Subscript) and isinstance(it.slice, ast.Slice):
                base = _expand(enc, it.value)
                if isinstance(base, ast.Call) and isinstance(base.func, ast.Attribute) and base.func.attr == 'split' \
                        and isinstance(base.func.value, ast.Name) and base.func.value.id == up and len(base.args) == 1 \
                        and isinstance(base.args[0], ast.Constant) and base.args[0].value == '%':
                    loops.append(n)
    # frozen look-alike table, part 1 (decided before the loop shape is looked at, so that it is
    # reported whatever the loop looks like: for over tokens, while/find scan, ...)
    lookalike_fired = _slice_class_tests(run, fa, enc, cfg, in_heuristic)
    if lookalike_fired and len(loops) != 1:
        return
    if not loops and scan is None:
        # the other way to visit every %: `pos = uri.find('%')` / `while pos != -1:` ... `pos = uri.find('%', pos + k)`
        fl = _find_loops(enc, up)
        if len(fl) == 1:
            return _r5_find_scan(run, fa, enc, cfg, up, fl[0], is_check, in_heuristic)
    loop = single(loops, "loop over the '%'-separated tokens", enc.qual)
    tok = loop.target.id
    # the shapes understood below carry the outcome of the scan in the control flow (break / for-else);
    # a flag set inside the loop and tested after it is another idiom
    inside = {id(x) for x in ast.walk(loop)}
    set_in_loop = {x.id for x in ast.walk(loop) if isinstance(x, ast.Name) and isinstance(x.ctx, ast.Store)}
    pure_flags = set(getattr(cfg, 'flag_refined', None) or ())      # decided by the refined graph itself
    for t in cfg.live_nodes():
        if t.kind == 'test' and id(t.ast) not in inside:
            flags = sorted(({x.id for x in ast.walk(t.ast) if isinstance(x, ast.Name)} & set_in_loop) - pure_flags)
            if flags:
                raise UnknownIdiom('%s: the outcome of the escape check is carried by the local %s (test %s)' % (
                    enc.qual, flags[0], short(t.ast, 60)))
    lo = p.fold(enc.module, loop.iter.slice.lower, None, None) if loop.iter.slice.lower is not None else None
    run.check(lo == 1 and loop.iter.slice.upper is None and loop.iter.slice.step is None,
              'every token that follows a % is examined', enc, loop.iter, where=enc.loc(loop),
              runtime_witness="encode_check_escaped('%zz%20') is returned unchanged")
    it_nodes = [i for i in cfg.nodes_for(loop) if cfg.node(i).kind == 'iter']      # one per flag valuation on a refined graph
    if not it_nodes:
        raise UnknownIdiom('%s: loop header' % enc.qual)
    done_edges = [e for i in it_nodes for e in flow.edges_out(cfg, i, 'done')]
    next_edges = [e for i in it_nodes for e in flow.edges_out(cfg, i, 'next')]

    # accept returns: pass-through returns guarded by check_is_escaped
    accept, encoded = [], []
    outer_accept, outer_encoded = [], []
    for n in outer_cfg.live_nodes():
        if n.kind == 'stmt' and isinstance(n.ast, ast.Return):
            v = n.ast.value
            if isinstance(v, ast.Name) and v.id == outer_up:
                verdict, tn = _guard_verdict(outer_cfg, n.id, is_check, True)
                if verdict == 'proved':
                    outer_accept.append(n)
            elif _keeps_percent(fa, outer_enc, outer_up, v) and _guard_verdict(outer_cfg, n.id, is_check, True)[0] == 'proved':
                outer_accept.append(n)     # existing escapes are left alone here, too
            else:
                outer_encoded.append(n)
    if not outer_accept:
        raise AnchorError('%s: no already-escaped shortcut' % outer_enc.qual)
    if scan is None:
        accept, encoded = outer_accept, outer_encoded
    else:
        # inside the predicate: `return True` accepts, `return False` is what `break` is in the inline form
        for n in cfg.live_nodes():
            if n.kind == 'stmt' and isinstance(n.ast, ast.Return):
                (accept if _const_bool(n.ast.value) is True else encoded).append(n)
        if not accept:
            raise AnchorError('%s never returns True' % enc.qual)
        tnode, _h, pol = scan
        yes = flow.edges_out(outer_cfg, tnode.id, 'T' if pol else 'F')
        no = flow.edges_out(outer_cfg, tnode.id, 'F' if pol else 'T')
        for n in outer_accept:
            run.check(any(flow.dominated_by_edge(outer_cfg, n.id, e) for e in yes),
                      'the input is accepted as already escaped only where %s(...) said so' % enc.name, outer_enc, n.ast,
                      where='%s:%s' % (outer_enc.file, n.lineno), runtime_witness="encode_check_escaped('%20%zz') is returned unchanged")
        bad = flow.find_path(outer_cfg, [b for (_a, b, _l) in no], [n.id for n in outer_accept], edge_filter=flow.no_exc)
        run.check(bad is None, 'a malformed escape makes the encoder fall through to full encoding', outer_enc, tnode.ast,
                  where='%s:%s' % (outer_enc.file, tnode.lineno), witness=flow.describe_path(outer_cfg, bad) if bad else None,
                  runtime_witness="encode_check_escaped('100% x') keeps the bare %")
    past_done = flow.reachable(cfg, [cfg.entry], avoid_edges=done_edges)
    for n in accept:
        run.check(n.id not in past_done,
                  'the input is accepted as already escaped only after the loop examined every token without breaking', enc, n.ast,
                  where='%s:%s' % (enc.file, n.lineno), runtime_witness="encode_check_escaped('%20%zz') is returned unchanged")

    # per-iteration condition: the loop continues only if the two characters after % are hex digits
    def expand_tok(e):
        e2 = e
        if isinstance(e, ast.Name) and e.id != tok:
            binds = _assignments(loop, e.id)
            if len(binds) == 1 and binds[0][1] is not None:
                e2 = binds[0][1]
        return e2

    def is_octet(e):
        """expression denoting token[:2]"""
        e = expand_tok(e)
        return _slice_of(p, enc, e, tok) in ((None, 2), (0, 2))

    hexsets = []
    octsets = []

    def octet_set(r) -> frozenset:
        """the folded right operand of `token[:2] in <set>`: a collection of strings (anything else cannot be read)"""
        hv = fa.ev.expr(r, dict(fa.env))
        if not isinstance(hv, (set, frozenset, tuple, list, dict)) or not all(isinstance(x, str) for x in hv):
            raise UnknownIdiom('%s: set of hex octets %s' % (enc.qual, short(r, 40)))
        return frozenset(hv)

    def char_index(e) -> Optional[int]:
        """e denotes the i-th character after the %"""
        if isinstance(e, ast.Subscript) and isinstance(e.slice, ast.Constant) and isinstance(e.slice.value, int):
            if is_octet(e.value) and e.slice.value in (0, 1):
                return e.slice.value
            if isinstance(e.value, ast.Name) and e.value.id == tok and e.slice.value in (0, 1):
                return e.slice.value
        return None

    def assume_for(kind, lenval=None):
        def assume(e):
            if isinstance(e, ast.Compare) and len(e.ops) == 1:
                l, op, r = e.left, e.ops[0], e.comparators[0]
                # len(octet) OP const
                if isinstance(l, ast.Call) and isinstance(l.func, ast.Name) and l.func.id == 'len' and len(l.args) == 1 and is_octet(l.args[0]) \
                        and isinstance(r, ast.Constant) and isinstance(r.value, int):
                    if kind != 'short':
                        return None
                    c = r.value
                    return {ast.Eq: lenval == c, ast.NotEq: lenval != c, ast.Lt: lenval < c, ast.LtE: lenval <= c,
                            ast.Gt: lenval > c, ast.GtE: lenval >= c}.get(type(op))
                # token[:2] in/not in <set of strings>: one lookup that tests length and both characters at once.
                # Whether the (at most two) characters after % can be a member follows from the folded set alone.
                if is_octet(l) and isinstance(op, (ast.In, ast.NotIn)):
                    hs = octet_set(r)
                    octsets.append((r, hs))
                    if kind == 'short':
                        member = None if any(len(x) == lenval for x in hs) else False
                    elif kind == 'c0':
                        member = False if all(x[0] in HEXDIG_BOTH for x in hs if x) else None
                    else:
                        member = False if all(x[1] in HEXDIG_BOTH for x in hs if len(x) >= 2) else None
                    if member is None:
                        return None
                    return member == isinstance(op, ast.In)
                ci = char_index(l)
                if ci is not None and isinstance(op, (ast.In, ast.NotIn)):
                    hv = fa.ev.expr(r, dict(fa.env)) if True else None
                    if not isinstance(hv, (str, frozenset, tuple, list)):
                        raise UnknownIdiom('%s: hex digit set %s' % (enc.qual, short(r, 40)))
                    hexsets.append((r, frozenset(hv)))
                    if kind == 'c%d' % ci:
                        return isinstance(op, ast.NotIn)
                    return None
            return None
        return assume

    seen_len = seen_c = set()
    # which atoms exist at all
    kinds_present = set()
    for n in walk_self(loop):
        if isinstance(n, ast.Compare) and len(n.ops) == 1:
            l = n.left
            if isinstance(l, ast.Call) and isinstance(l.func, ast.Name) and l.func.id == 'len' and len(l.args) == 1 and is_octet(l.args[0]):
                kinds_present.add('short')
            ci = char_index(l)
            if ci is not None and isinstance(n.ops[0], (ast.In, ast.NotIn)):
                kinds_present.add('c%d' % ci)
            if is_octet(l) and isinstance(n.ops[0], (ast.In, ast.NotIn)):
                octet_set(n.comparators[0])
                kinds_present.add('octet')
    if not kinds_present & {'c0', 'c1', 'octet'}:
        # frozen table of look-alike idioms that are NOT an exact two-hex-digit
        # test: int(x, 16) also accepts a sign, surrounding whitespace,
        # underscores and a single digit; bytes.fromhex/unhexlify skip or
        # reject differently.  Using one of them as the escape check is a
        # genuine defect of the heuristic, not an unknown shape.
        lookalike = [c for c in walk_self(loop) if isinstance(c, ast.Call) and (
            (isinstance(c.func, ast.Name) and c.func.id == 'int' and len(c.args) == 2
             and isinstance(c.args[1], ast.Constant) and c.args[1].value == 16)
            or (isinstance(c.func, ast.Attribute) and c.func.attr in ('fromhex', 'unhexlify', 'a2b_hex')))]
        if lookalike:
            run.fail('the escape check relies on %s, which accepts strings that are not two hex digits (sign, whitespace, '
                     'underscore, single digit): a malformed escape passes as already escaped' % short(lookalike[0].func, 30),
                     enc, lookalike[0], where=enc.loc(lookalike[0]),
                     runtime_witness="encode_check_escaped('%+a') / ('/sale/100%-5') is returned unchanged")
            return
        if lookalike_fired:
            return
        raise UnknownIdiom('%s: the escape check does not test the characters after %% against a digit set' % enc.qual)
    cases = [('short', 0, 'no character follows the %'), ('short', 1, 'a single character follows the %'),
             ('c0', None, 'the first character after % is not a hex digit'), ('c1', None, 'the second character after % is not a hex digit')]
    for kind, lv, doc in cases:
        assume = assume_for(kind, lv)
        starts = [e[1] for e in next_edges]
        path = flow.find_path(cfg, starts, it_nodes, edge_filter=_feasible(cfg, assume))
        if path is None:
            path = flow.find_path(cfg, starts, [n.id for n in accept], edge_filter=_feasible(cfg, assume))
        run.check(path is None, 'when %s the loop breaks (the input is not taken as already escaped)' % doc, enc,
                  'escape check: %s' % doc, where=enc.loc(loop), witness=flow.describe_path(cfg, path) if path else None,
                  runtime_witness={'short': "encode_check_escaped('abc%')", 'c0': "encode_check_escaped('%z0')",
                                   'c1': "encode_check_escaped('%0z')"}[kind] + ' is returned unchanged')
    for node, hv in {id(n): (n, s) for n, s in hexsets}.values():
        run.check(hv == HEXDIG_BOTH, 'escapes are recognised by hex digits of both cases, and nothing else', enc, node,
                  where=enc.loc(node), witness=['%r' % _show(hv)], runtime_witness="encode_check_escaped('%2f') or ('%2g')")
    all_octets = frozenset(a + b for a in HEXDIG_BOTH for b in HEXDIG_BOTH)
    for node, hs in {id(n): (n, s) for n, s in octsets}.values():
        run.check(hs == all_octets, 'escapes are recognised by exactly the 22 x 22 two-character strings over the hex digits of both cases', enc, node,
                  where=enc.loc(node), witness=['missing: %s' % sorted(all_octets - hs)[:6], 'extra: %s' % sorted(hs - all_octets)[:6]],
                  runtime_witness="encode_check_escaped('%2f') or ('%2g')")

    # a break falls through to full encoding
    brks = [n for n in cfg.live_nodes() if n.kind == 'stmt' and isinstance(n.ast, ast.Break) and any(x is n.ast for x in ast.walk(loop))]
    if scan is not None:
        rejects = [n for n in encoded if any(x is n.ast for x in ast.walk(loop))]
        for n in rejects:
            run.ok('a malformed escape makes %s answer False' % enc.name, '%s:%s' % (enc.file, n.lineno), n.ast)
        if not brks and not rejects:
            raise AnchorError('%s: the escape check never rejects' % enc.qual)
    elif not brks:
        raise AnchorError('%s: no break in the escape check' % enc.qual)
    for b in brks:
        bad = flow.find_path(cfg, [b.id], [n.id for n in cfg.live_nodes() if n.kind == 'stmt' and isinstance(n.ast, ast.Return)
                                           and n not in encoded], edge_filter=flow.no_exc)
        run.check(bad is None, 'a malformed escape makes the encoder fall through to full encoding', enc, b.ast,
                  where='%s:%s' % (enc.file, b.lineno), witness=flow.describe_path(cfg, bad) if bad else None,
                  runtime_witness="encode_check_escaped('100% x') keeps the bare %")


# ---------------------------------------------------------------------------
# R6 parse_host
# ---------------------------------------------------------------------------

def _sep_atom(e, host: str) -> Optional[bool]:
    """e is an atom about "a port separator was found": True when e being
    true means found, False when e being true means not found, None otherwise.
    `X != -1` / `X == -1` (a find result), `':' in host` / `':' not in host`."""
    if isinstance(e, ast.Compare) and len(e.ops) == 1:
        op, l, r = e.ops[0], e.left, e.comparators[0]
        if isinstance(op, (ast.Eq, ast.NotEq)) and isinstance(l, ast.Name) and isinstance(r, ast.UnaryOp) and isinstance(r.op, ast.USub) \
                and isinstance(r.operand, ast.Constant) and r.operand.value == 1:
            return isinstance(op, ast.NotEq)
        if isinstance(op, (ast.In, ast.NotIn)) and isinstance(l, ast.Constant) and isinstance(l.value, str) and ':' in l.value \
                and isinstance(r, ast.Name) and r.id == host:
            return isinstance(op, ast.In)
        # `host.count(':') == 1` and the like: the outcome on which the count cannot be 0 is "found"
        if isinstance(l, ast.Call) and isinstance(l.func, ast.Attribute) and l.func.attr == 'count' and isinstance(l.func.value, ast.Name) \
                and l.func.value.id == host and len(l.args) == 1 and not l.keywords and isinstance(l.args[0], ast.Constant) \
                and isinstance(l.args[0].value, str) and ':' in l.args[0].value and isinstance(r, ast.Constant) and type(r.value) is int \
                and isinstance(op, (ast.Eq, ast.NotEq, ast.Lt, ast.LtE, ast.Gt, ast.GtE)):
            k = r.value
            zero_true = {ast.Eq: 0 == k, ast.NotEq: 0 != k, ast.Lt: 0 < k, ast.LtE: 0 <= k, ast.Gt: 0 > k, ast.GtE: 0 >= k}[type(op)]
            return not zero_true      # True: e true => count >= 1; False: e false => count >= 1
    return None


def _bracket_atom(e, host: str) -> Optional[bool]:
    """True when e being true means the host starts with '[', False when it means it does not, None: no such atom."""
    if isinstance(e, ast.Call) and isinstance(e.func, ast.Attribute) and e.func.attr == 'startswith' \
            and isinstance(e.func.value, ast.Name) and e.func.value.id == host and len(e.args) == 1 and not e.keywords \
            and isinstance(e.args[0], ast.Constant) and e.args[0].value == '[':
        return True
    if isinstance(e, ast.Compare) and len(e.ops) == 1 and isinstance(e.ops[0], (ast.Eq, ast.NotEq)) \
            and isinstance(e.comparators[0], ast.Constant) and e.comparators[0].value == '[':
        l = e.left
        first = isinstance(l, ast.Subscript) and isinstance(l.value, ast.Name) and l.value.id == host and (
            (isinstance(l.slice, ast.Constant) and l.slice.value == 0)
            or (isinstance(l.slice, ast.Slice) and l.slice.step is None and _lin(l.slice.lower) == (None, 0)
                and l.slice.upper is not None and _lin(l.slice.upper) == (None, 1)))
        if first:
            return isinstance(e.ops[0], ast.Eq)
    return None


def _bracket_paths(f: Func, cfg, host: str):
    """For every node: which outcomes of host.startswith('[') are possible on
    the paths that reach it ({True}, {False}, both), plus the tests about the
    host (or a local computed from it) whose shape is not read."""
    opaque: Set[int] = set()
    cur = [None]
    derived = _derived_locals(f.node, {host})

    def is_host(e):
        return isinstance(e, ast.Name) and e.id == host

    def const_str(e):
        return e.value if isinstance(e, ast.Constant) and isinstance(e.value, str) else None

    def positive(e) -> Optional[bool]:
        return _bracket_atom(e, host)

    def atom(e, truth, state, leaf):
        pol = positive(e)
        if pol is not None:
            st = state & {truth == pol}
            return st or None
        if is_host(e):                     # an empty host does not start with '['
            return state if truth else (state & {False} or None)
        if isinstance(e, ast.Compare) and len(e.ops) == 1:
            op, l, r = e.ops[0], e.left, e.comparators[0]
            c = const_str(r)
            if isinstance(op, (ast.Eq, ast.NotEq)) and is_host(l) and c is not None:
                if isinstance(op, ast.Eq) == truth:
                    return state & {c.startswith('[')} or None
                return state
            c = const_str(l)
            if isinstance(op, (ast.In, ast.NotIn)) and is_host(r) and c is not None:
                absent = isinstance(op, ast.NotIn) == truth
                if absent and c == '[':
                    return state & {False} or None
                return state               # says nothing about the first character
            # host.find(':') == -1 / pos != -1 with pos = host.rfind(']:'): the outcome of a search for
            # something that does not begin with '[' says nothing about the first character
            if _lin(r) is not None and _lin(r)[0] is None:
                searches = [l]
                if isinstance(l, ast.Name) and l.id in derived:
                    searches = [val for (_s, val) in _assignments(f.node, l.id)]
                if searches and all(
                        isinstance(x, ast.Call) and isinstance(x.func, ast.Attribute) and x.func.attr in ('find', 'rfind', 'index', 'count')
                        and is_host(x.func.value) and len(x.args) == 1 and const_str(x.args[0]) is not None
                        and not const_str(x.args[0]).startswith('[') for x in searches):
                    return state
        if not leaf and (isinstance(e, ast.BoolOp) or (isinstance(e, ast.UnaryOp) and isinstance(e.op, ast.Not))):
            return NotImplemented
        if any(isinstance(x, ast.Name) and x.id in derived | {host} for x in ast.walk(e)):
            opaque.add(cur[0])
        return state

    def transfer(state, a, b, l):
        n = cfg.node(a)
        if n.kind == 'test' and l in ('T', 'F'):
            cur[0] = n.id
            return _restrict(n.ast, l == 'T', state, atom, lambda x, y: x | y)
        return state

    state = _forward(cfg, frozenset({True, False}), transfer, lambda x, y: x | y)
    return state, opaque


def _host_forms(p, f: Func, prov, e, nid: int, host: str, depth: int = 0) -> List[tuple]:
    """What a host expression is, per definition reaching cfg node `nid`:
    ('whole',) the parameter, ('slice', lo) host[lo:...], ('other',)."""
    if isinstance(e, ast.IfExp):
        return _host_forms(p, f, prov, e.body, nid, host, depth) + _host_forms(p, f, prov, e.orelse, nid, host, depth)
    if isinstance(e, ast.Name):
        if e.id == host:
            return [('whole',)]
        ds = prov.rd.at(nid, e.id)
        if not ds or depth > 4:
            return [('other',)]
        out: List[tuple] = []
        for d in ds:
            if d.kind == 'assign':
                out += _host_forms(p, f, prov, d.value, d.node, host, depth + 1)
            elif d.kind == 'unpack' and prov.unpacked_item(d) is not None:
                out += _host_forms(p, f, prov, prov.unpacked_item(d), d.node, host, depth + 1)
            else:
                out.append(('other',))
        return out
    sl = _slice_lower(p, f, e, host)
    if sl is not None:
        return [('slice', sl[0])]
    return [('other',)]


def _port_forms(p, f: Func, prov, e, nid: int, dflt: str, depth: int = 0, cond: bool = False) -> List[tuple]:
    """What a port expression is, per definition reaching cfg node `nid`:
    (kind, cfg node where it is computed, under a conditional expression) with
    kind 'int' (int(<one argument>)), 'default' (the default-port parameter), 'other'."""
    if isinstance(e, ast.IfExp):
        return _port_forms(p, f, prov, e.body, nid, dflt, depth, True) + _port_forms(p, f, prov, e.orelse, nid, dflt, depth, True)
    if isinstance(e, ast.Call) and p.resolve_callable(f, e.func) == 'builtins.int' and len(e.args) == 1 and not e.keywords:
        return [('int', nid, cond)]
    if isinstance(e, ast.Name):
        ds = prov.rd.at(nid, e.id)
        if e.id == dflt and ds and all(d.kind == 'param' for d in ds):
            return [('default', nid, cond)]
        if not ds or depth > 4:
            return [('other', nid, cond)]
        out: List[tuple] = []
        for d in ds:
            if d.kind == 'assign':
                out += _port_forms(p, f, prov, d.value, d.node, dflt, depth + 1, cond)
            elif d.kind == 'unpack' and prov.unpacked_item(d) is not None:
                out += _port_forms(p, f, prov, prov.unpacked_item(d), d.node, dflt, depth + 1, cond)
            else:
                out.append(('other', nid, cond))
        return out
    return [('other', nid, cond)]


_PIECE_METHODS = ('partition', 'rpartition', 'split', 'rsplit', 'removeprefix', 'removesuffix')


def _piece_step(x) -> bool:
    """A provenance step (kind, node, reason) that keeps a CONTIGUOUS piece of the text as it is:
    text[a:b], text[i], an item of text.partition()/split(), text.removeprefix()."""
    _kind, node, _why = x
    if isinstance(node, ast.Subscript):
        sl = node.slice
        if isinstance(sl, ast.Slice):
            return sl.step is None or (isinstance(sl.step, ast.Constant) and sl.step.value == 1)
        return True
    return isinstance(node, ast.Call) and isinstance(node.func, ast.Attribute) and node.func.attr in _PIECE_METHODS


def r6_parse_host(run):
    """parse_host splits, it does not normalise.  Besides the port / bracket
    clauses: the host of every return is the parameter itself or a contiguous
    piece of it (Provenance relative to the parameter: slices, partition/split
    items; any other step - lower(), strip(), replace(), decode(), an encoder -
    is a rewritten copy).  W: parse_host('Example.COM:8080')[0] == 'example.com'
    but parse_host('Example.COM')[0] == 'Example.COM'."""
    p = run.project
    f = p.func(URI + '.parse_host')
    cfg = cfg_of(f, p)
    run.use_cfg(cfg)
    params = [a.arg for a in f.node.args.args]
    if len(params) != 2:
        raise UnknownIdiom('parse_host takes %s' % params)
    host, dflt = params
    if _assignments(f.node, host):
        raise UnknownIdiom('parse_host rebinds its parameter %s' % host)

    rets = [n for n in cfg.live_nodes() if n.kind == 'stmt' and isinstance(n.ast, ast.Return)]
    if len(rets) < 3:
        raise AnchorError('parse_host: expected at least three returns')
    from .common import implied
    bracket, opaque = _bracket_paths(f, cfg, host)
    about_host = _derived_locals(f.node, {host}) | {host}
    from .c15_helpers import Provenance
    prov = Provenance(p, f, host, unpack_pieces=True)
    n_fail = 0
    for n in rets:
        v = n.ast.value
        if not (isinstance(v, ast.Tuple) and len(v.elts) == 2):
            raise UnknownIdiom('parse_host returns %s' % short(v, 60))
        h, port = v.elts
        where = '%s:%s' % (f.file, n.lineno)
        # the host handed back is text OF the authority: the parameter itself or a contiguous piece of it
        o = prov.classify(h, n.id)
        if not o.derived:
            raise UnknownIdiom('parse_host: the host of %s is not built from the parameter %s' % (short(v, 60), host))
        rewritten = [x for x in o.xforms if not _piece_step(x)]
        run.check(not rewritten, 'the host returned is the text of the authority - the parameter itself or a contiguous piece of it (a slice, an '
                  'item of a partition/split) - on every branch: never a case-folded, stripped, decoded or otherwise rewritten copy',
                  f, n.ast, where=where, witness=['%s: %s (%s)' % (k, short(nd, 80), why) for (k, nd, why) in rewritten],
                  runtime_witness="parse_host('Example.COM:8080') == ('example.com', 8080) while parse_host('Example.COM') == ('Example.COM', None): "
                                  "the branches disagree about the same host")
        # what the port expression is on each definition that reaches this return
        pforms = _port_forms(p, f, prov, port, n.id, dflt)
        run.check(all(k in ('int', 'default') for (k, _at, _c) in pforms), 'the port is an int() of the text after the separator, or the default',
                  f, n.ast, where=where, runtime_witness="parse_host('example.org:8080')[1] == '8080'")
        # bracket facts on the paths to this return
        br = bracket.get(n.id)
        if not br:
            raise UnknownIdiom('parse_host: return %s is not reached over normal edges' % short(v, 60))
        # what the host expression is on each definition that reaches this return: the parameter, a slice host[lo:...], other
        forms = _host_forms(p, f, prov, h, n.id, host)
        strips = [fm for fm in forms if fm[0] == 'slice' and fm[1] not in (None, 0)]
        if rewritten and any(fm[0] == 'other' for fm in forms):
            pass        # already a violation; what a rewritten copy does to the brackets is not judged on top
        elif br == frozenset({True}):
            if any(fm[0] == 'other' for fm in forms):
                raise UnknownIdiom('parse_host: the host of %s on the bracketed branch is neither the parameter nor a slice of it' % short(v, 60))
            run.check(all(fm[0] == 'slice' and fm[1] == 1 for fm in forms), 'a bracketed IPv6 host is returned without its brackets',
                      f, n.ast, where=where, runtime_witness="parse_host('[::1]:80')[0] == '[::1]'")
        elif br == frozenset({False}):
            run.check(not strips, 'only a bracketed host loses its first character', f, n.ast, where=where,
                      runtime_witness="parse_host('example.org')[0] == 'xample.org'")
        else:
            # nothing on the paths to this return says whether the host is bracketed
            keeps_first = all(fm[0] == 'whole' or (fm[0] == 'slice' and fm[1] in (None, 0)) for fm in forms)
            strips = len(strips) == len(forms)
            if not (keeps_first or strips):
                raise UnknownIdiom('parse_host: return %s is not classified by host.startswith("[")' % short(v, 60))
            back = flow.co_reachable(cfg, [n.id])
            unread = sorted(t for t in opaque if t in back)
            if unread:
                raise UnknownIdiom('parse_host: test %s (is the host bracketed at %s?)' % (short(cfg.node(unread[0]).ast, 60), short(v, 60)))
            path = flow.find_path(cfg, [cfg.entry], [n.id], edge_filter=flow.no_exc)
            wit = flow.describe_path(cfg, path) if path else None
            n_fail += 1
            if keeps_first:
                run.fail("a bracketed host is returned without its brackets on every path: this return hands back the host with its "
                         "first character although no test on the way excludes host.startswith('[')", f, n.ast, where=where, witness=wit,
                         runtime_witness="parse_host('[v1.fe80]') == ('[v1.fe80]', None) but parse_host('[v1.fe80]:80') == ('v1.fe80', 80)")
            else:
                run.fail("only a bracketed host loses its first character: this return strips it although no test on the way "
                         "establishes host.startswith('[')", f, n.ast, where=where, witness=wit,
                         runtime_witness="parse_host('example.org')[0] == 'xample.or'")
        for (_k, at, conditional) in [pf for pf in pforms if pf[0] == 'int']:
            # a separator was found
            found = False
            unknown = None
            for t in cfg.live_nodes():
                if t.kind != 'test':
                    continue
                for a in [x for x in walk_self(t.ast) if _sep_atom(x, host) is not None]:
                    for (y, l) in cfg.succ[t.id]:
                        if l in ('T', 'F') and flow.dominated_by_edge(cfg, at, (t.id, y, l)):
                            r = implied(t.ast, l == 'T', lambda e, a=a: e is a)
                            if r is None:
                                unknown = t
                                continue
                            if r == _sep_atom(a, host):
                                found = True
            if not found and unknown is not None:
                raise UnknownIdiom('parse_host: test %s' % short(unknown.ast, 80))
            if not found and conditional:
                raise UnknownIdiom('parse_host: the int() port of %s is chosen by a conditional expression (was a port separator found?)' % short(v, 60))
            if not found:
                # a test about the host that is read neither as a separator test nor as a bracket test
                # may be what establishes the separator (host.count(':') == 1, ...)
                back = flow.co_reachable(cfg, [at])
                for t in cfg.live_nodes():
                    if t.kind != 'test' or t.id not in back:
                        continue
                    stack = [t.ast]
                    while stack:
                        e = stack.pop()
                        if isinstance(e, ast.BoolOp):
                            stack += e.values
                        elif isinstance(e, ast.UnaryOp) and isinstance(e.op, ast.Not):
                            stack.append(e.operand)
                        elif _sep_atom(e, host) is None and _bracket_atom(e, host) is None \
                                and any(isinstance(x, ast.Name) and x.id in about_host for x in ast.walk(e)):
                            raise UnknownIdiom('parse_host: test %s (was a port separator found at %s?)' % (short(t.ast, 60), short(v, 60)))
            run.check(found, 'a numeric port is returned only where a port separator was found', f, n.ast, where=where,
                      runtime_witness="parse_host('example.org') raises ValueError from int('')")
    if not n_fail and not any(bracket.get(n.id) == frozenset({True}) for n in rets):
        raise AnchorError("parse_host: no return on a path where host.startswith('[') is established")


# ---------------------------------------------------------------------------
# R7 a one-shot iterator bound to a local is consumed at most once
# ---------------------------------------------------------------------------

_ONE_SHOT_CALLS = ('builtins.map', 'builtins.filter', 'builtins.zip', 'builtins.iter', 'builtins.reversed', 'builtins.enumerate',
                   're.finditer', 'itertools.chain', 'itertools.islice', 'itertools.product', 'itertools.starmap', 'itertools.takewhile',
                   'itertools.dropwhile', 'itertools.accumulate', 'itertools.zip_longest', 'itertools.compress', 'itertools.filterfalse')
# callables that iterate their argument to the end (all/any: until the first deciding element -- what is left is not the whole either)
_DRAINING_CALLS = ('all', 'any', 'sum', 'min', 'max', 'list', 'tuple', 'set', 'frozenset', 'sorted', 'dict', 'bytes', 'bytearray', 'len')
_DRAINING_METHODS = ('join', 'extend', 'update', 'writelines', 'fromkeys')
_STEPPING_CALLS = ('next',)      # takes one element: using the iterator again is the point


def _one_shot_expr(p, f: Func, e) -> bool:
    if isinstance(e, ast.GeneratorExp):
        return True
    if isinstance(e, ast.Call):
        q = p.resolve_expr(f.module, e.func, f)
        return q in _ONE_SHOT_CALLS
    return False


def _iter_use_kind(parent, use: ast.Name) -> str:
    """'drain' (iterated to the end / until decided), 'step' (next()), 'test' (identity / None test), 'other'"""
    up = parent.get(id(use))
    if isinstance(up, ast.Starred):
        return 'drain'
    if isinstance(up, ast.Call) and use in up.args:
        if isinstance(up.func, ast.Name) and up.func.id in _DRAINING_CALLS:
            return 'drain'
        if isinstance(up.func, ast.Name) and up.func.id in _STEPPING_CALLS:
            return 'step'
        if isinstance(up.func, ast.Attribute) and up.func.attr in _DRAINING_METHODS:
            return 'drain'
        return 'other'
    if isinstance(up, ast.comprehension) and up.iter is use:
        return 'drain'
    if isinstance(up, (ast.For, ast.AsyncFor)) and up.iter is use:
        body_breaks = any(isinstance(x, (ast.Break, ast.Return)) for s in up.body for x in ast.walk(s))
        return 'other' if body_breaks else 'drain'     # a loop left early may be resumed on purpose
    if isinstance(up, ast.Compare) and all(isinstance(o, (ast.Is, ast.IsNot)) for o in up.ops):
        return 'test'
    if isinstance(up, ast.Compare) and up.left is not use and any(isinstance(o, (ast.In, ast.NotIn)) for o in up.ops):
        return 'drain'        # `x in it` walks the iterator
    return 'other'


def _exclusive_arms(parent, a, b) -> bool:
    """a and b sit in different arms of one conditional expression (never both evaluated)"""
    def chain(x):
        out = []
        cur, up = x, parent.get(id(x))
        while up is not None and not isinstance(up, ast.stmt):
            if isinstance(up, ast.IfExp) and cur is not up.test:
                out.append((id(up), 'body' if cur is up.body else 'orelse'))
            cur, up = up, parent.get(id(up))
        return dict(out)
    ca, cb = chain(a), chain(b)
    return any(k in cb and cb[k] != arm for k, arm in ca.items())


def iterator_consumed_once(run, funcs) -> int:
    """The sweep behind R7 (usable for any list of functions)."""
    from .c09_helpers import ReachingDefs, node_defs
    p = run.project
    n_locals = 0
    for f in funcs:
        cfg = cfg_of(f, p)
        run.use_cfg(cfg)
        parent = enclosing_map(f.node)
        makers = []      # (cfg node, Def) binding a local to a fresh one-shot iterator
        for n in cfg.live_nodes():
            if n.copy:
                continue
            for d in node_defs(n):
                if d.how == 'assign' and d.value is not None and _one_shot_expr(p, f, d.value):
                    makers.append((n, d))
        # a nested function that reads such a local runs the iterator down on its first call
        shot_names = {d.name for (_n, d) in makers}
        for g in f.nested.values():
            own = _stored_names(g.node)
            for x in ast.walk(g.node):
                if isinstance(x, ast.Name) and x.id in shot_names and x.id not in own and isinstance(x.ctx, ast.Load):
                    raise UnknownIdiom('%s reads the one-shot iterator %s of %s (how often is it called?)' % (g.qual, x.id, f.qual))
        if not makers:
            run.ok('no local of %s is bound to a one-shot iterator (generator expression, map/filter/zip/iter/... result)' % f.qual, f.loc(), f.qual)
            continue
        rd = ReachingDefs(cfg)
        uses_by_name: Dict[str, list] = {}
        for n in cfg.live_nodes():
            if n.copy:
                continue
            for x in n.walk():
                if isinstance(x, ast.Name) and isinstance(x.ctx, ast.Load) and x.id in shot_names:
                    uses_by_name.setdefault(x.id, []).append((n, x))
        for mn, d in makers:
            n_locals += 1
            uses = [(n, x) for (n, x) in uses_by_name.get(d.name, []) if any(dd.stmt is d.stmt for dd in rd.at(n.id, d.name))]
            kinds = [(n, x, _iter_use_kind(parent, x)) for (n, x) in uses]
            drains = [(n, x) for (n, x, k) in kinds if k == 'drain']
            others = [(n, x) for (n, x, k) in kinds if k == 'other']
            redefs = {n.id for n in cfg.live_nodes() if any(dd.name == d.name for dd in node_defs(n))}
            second = None
            for i, (n1, x1) in enumerate(drains):
                for (n2, x2) in drains:
                    if x1 is x2:
                        # the same consumer again: only round an enclosing loop that does not re-create the iterator.  A `for`
                        # statement evaluates its iterable once: what counts is re-entering the statement after leaving it.
                        starts = [y for (y, l) in cfg.succ[n1.id] if l != 'exc']
                        if n1.kind == 'iter':
                            from .common import nodes_within
                            body = nodes_within(cfg, list(n1.stmt.body)) | {n1.id}
                            starts = sorted({b for a in body for (b, l) in cfg.succ.get(a, ()) if l != 'exc' and b not in body})
                        if n1.id not in redefs and flow.find_path(cfg, starts, [n1.id], avoid_nodes=redefs - {n1.id},
                                                                  edge_filter=flow.no_exc) is not None:
                            second = (x1, x2, 'again on the next round of the enclosing loop')
                        continue
                    if n1.id == n2.id:
                        if not _exclusive_arms(parent, x1, x2) and (x1.lineno, x1.col_offset) < (x2.lineno, x2.col_offset):
                            second = (x1, x2, 'in the same expression')
                        continue
                    if flow.find_path(cfg, [y for (y, l) in cfg.succ[n1.id] if l != 'exc'], [n2.id], avoid_nodes=redefs - {n2.id},
                                      edge_filter=flow.no_exc) is not None:
                        second = (x1, x2, 'later on a path')
                    if second:
                        break
                if second:
                    break
            what = ('the one-shot iterator bound to `%s` is consumed at most once on every path (a generator / map / filter / zip object '
                    'yields nothing the second time)' % d.name)
            if second is not None:
                c1, c2 = parent.get(id(second[0])), parent.get(id(second[1]))
                while c1 is not None and not isinstance(c1, (ast.Call, ast.comprehension, ast.For, ast.Compare, ast.Starred)):
                    c1 = parent.get(id(c1))
                while c2 is not None and not isinstance(c2, (ast.Call, ast.comprehension, ast.For, ast.Compare, ast.Starred)):
                    c2 = parent.get(id(c2))
                run.fail(what, f, d.stmt, where=f.loc(d.stmt),
                         witness=['first consumer: %s' % short(c1 if c1 is not None else second[0], 80),
                                  'second consumer (%s): %s -- sees the iterator exhausted' % (second[2], short(c2 if c2 is not None else second[1], 80))],
                         runtime_witness="encode_check_escaped('http://example.com/sale/50%off') is returned unchanged: the second test runs over nothing")
                continue
            if others and (drains or len(others) > 1):
                raise UnknownIdiom('%s: the one-shot iterator %s is also used in %s (does that consume it?)' % (
                    f.qual, d.name, short(parent.get(id(others[0][1])), 80)))
            run.ok(what, f.loc(d.stmt), d.stmt)
    return n_locals


def r7_one_shot_iterators(run):
    """A generator expression or a map / filter / zip / iter / reversed / enumerate result bound to a local can be run
    through ONCE.  In every function of falcon.util.uri (nested ones included): for each such binding, no path leads
    from one consumer that iterates it (all/any/sum/min/max/list/tuple/set/sorted/dict/''.join/extend/update, a
    comprehension, a for loop that is not left early, `in`, *-unpacking) to a second one without the local being
    re-bound in between; two consumers in one expression count unless they sit in different arms of a conditional
    expression; next() steps are free.  Another kind of use next to a consumer is an idiom the rule does not read.
    W: hex_octets = (t[:2] for t in ...); all(len(o) == 2 for o in hex_octets) and not ''.join(hex_octets).rstrip(HEX)
    -- the join sees nothing, every two-character pair passes as an escape."""
    p = run.project
    m = p.module(URI)
    funcs = []
    stack = [m.functions[k] for k in sorted(m.functions)]
    while stack:
        g = stack.pop(0)
        funcs.append(g)
        stack.extend(g.nested[k] for k in sorted(g.nested))
    if len(funcs) < 8:
        raise AnchorError('%s: only %d functions found' % (URI, len(funcs)))
    iterator_consumed_once(run, funcs)


def check(run):
    run.assume('the pure-Python reference falcon/util/uri.py is what is decided; falcon/cyutil/uri.pyx is not analysed')
    run.assume('tables are computed from the source by a constant evaluator (str/bytes/int/dict expressions, loops and comprehensions over constants); '
               '_HEX_TO_BYTE is the value left by every top-level statement of falcon/util/uri.py that binds it, fills it in place or builds '
               'something those statements read, evaluated in source order; no function of the module changes it afterwards')
    run.rule('R1', _safe(r1_alphabets), 'allowed alphabets vs RFC 3986 2.2/2.3; % and + excluded; per configuration: whatever reaches the output without passing '
             'through the char table (whole input, stripped tail) is over the allowed alphabet, % only after the already-escaped check accepted', floor=14)
    run.rule('R2', _safe(r2_escape_shape), "escape shape %XX upper-case over UTF-8 bytes; _HEX_TO_BYTE complete and inverse", floor=10)
    run.rule('R3', _safe(r3_bindings), 'public encoder bindings and their users', floor=12)
    run.rule('R4', _safe(r4_decoder_paths), 'the three decoder paths share one skeleton; plus handling; shortcut; the tokenisation at % is unbounded', floor=20)
    run.rule('R5', _safe(r5_check_escaped), 'check-escaped loop: for/else acceptance, hex digits, fall-through; no character-class test on a possibly empty slice', floor=8)
    run.rule('R6', _safe(r6_parse_host), 'parse_host return shapes; brackets stripped on every path where host.startswith("[") is not excluded, and only there; '
             'the host returned is the parameter or a contiguous piece of it on every branch (no case folding / stripping / decoding)', floor=12)
    run.rule('R7', _safe(r7_one_shot_iterators), 'a one-shot iterator (generator expression, map/filter/zip/iter result) bound to a local is consumed at most '
             'once on every path (every function of falcon.util.uri)', floor=8)
